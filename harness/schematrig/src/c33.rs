//! C33 — schema changes keep catalog, storage and index registry consistent (DESIGN §5 C33).
//!
//! Explicit-state search (vcore::histmc) over histories of DDL/DML statements that name two tables
//! under several spellings (`t`, `"T"`, `"t"`, `"public".t`), a rename target and two index names.
//! A small reference model tracks the *declared* objects (table -> column list, index -> table);
//! in every reached state the catalog listing, the storage tables and both index registries are
//! compared with the model and with each other, index contents are compared with the rows, point
//! queries are compared with a scan, and every DDL transition must leave the data of retained
//! columns untouched.

use std::collections::{BTreeMap, BTreeSet, HashMap};

use serde_json::json;
use vibesql_storage::database::IndexData;
use vibesql_storage::Database;
use vibesql_types::SqlValue;

use vcore::exec::Out;
use vcore::histmc::{self, Caps, Node, Spec};
use vcore::report::Report;
use vcore::val;

use crate::common::{apply_op, describe, q, select_cols};

// ---------------------------------------------------------------------------------------------
// alphabet
// ---------------------------------------------------------------------------------------------

#[derive(Clone, Debug, PartialEq)]
enum Kind {
    CreateTable { cols: Vec<&'static str> },
    DropTable,
    CreateIndex { name: &'static str, cols: Vec<&'static str> },
    /// `exact`: the spelling denotes the stored name under SQL identifier rules
    DropIndex { name: &'static str, exact: bool },
    AddColumn { col: &'static str },
    DropColumn { col: &'static str },
    RenameColumn { from: &'static str, to: &'static str },
    RenameTable { to: &'static str },
    Constraint,
    Dml,
}

#[derive(Clone, Debug)]
struct Op {
    sql: String,
    /// statement shape, for signatures
    shape: &'static str,
    /// how the table is spelled: folded | delimited_upper | delimited_lower | qualified | -
    spelling: &'static str,
    /// the table the statement denotes under SQL identifier rules (None for DROP INDEX)
    target: Option<&'static str>,
    kind: Kind,
}

fn op(sql: &str, shape: &'static str, spelling: &'static str, target: Option<&'static str>, kind: Kind) -> Op {
    Op { sql: sql.to_string(), shape, spelling, target, kind }
}

fn alphabet(thorough: bool) -> Vec<Op> {
    use Kind::*;
    let ab = || vec!["A", "B"];
    let mut v = vec![
        // CREATE TABLE under different spellings; the qualified one declares other columns
        op("CREATE TABLE t (a INT, b INT)", "create_table", "folded", Some("T"), CreateTable { cols: ab() }),
        op("CREATE TABLE \"t\" (a INT, b INT)", "create_table", "delimited_lower", Some("t"), CreateTable { cols: ab() }),
        op("CREATE TABLE \"public\".t (a INT, c INT)", "create_table", "qualified", Some("T"), CreateTable { cols: vec!["A", "C"] }),
        op("DROP TABLE t", "drop_table", "folded", Some("T"), DropTable),
        op("DROP TABLE \"t\"", "drop_table", "delimited_lower", Some("t"), DropTable),
        op("DROP TABLE \"public\".t", "drop_table", "qualified", Some("T"), DropTable),
        // indexes: two names, reused across tables
        op("CREATE INDEX i ON t (b)", "create_index", "folded", Some("T"), CreateIndex { name: "I", cols: vec!["B"] }),
        op("CREATE UNIQUE INDEX j ON t (a)", "create_unique_index", "folded", Some("T"), CreateIndex { name: "J", cols: vec!["A"] }),
        op("CREATE INDEX i ON \"t\" (b)", "create_index", "delimited_lower", Some("t"), CreateIndex { name: "I", cols: vec!["B"] }),
        op("DROP INDEX i", "drop_index", "folded", None, DropIndex { name: "I", exact: true }),
        op("DROP INDEX \"i\"", "drop_index", "delimited_lower", None, DropIndex { name: "I", exact: false }),
        // ALTER TABLE
        op("ALTER TABLE t ADD COLUMN c INT", "alter_add_column", "folded", Some("T"), AddColumn { col: "C" }),
        op("ALTER TABLE \"t\" ADD COLUMN c INT", "alter_add_column", "delimited_lower", Some("t"), AddColumn { col: "C" }),
        op("ALTER TABLE t DROP COLUMN b", "alter_drop_column", "folded", Some("T"), DropColumn { col: "B" }),
        op("ALTER TABLE \"T\" DROP COLUMN a", "alter_drop_column", "delimited_upper", Some("T"), DropColumn { col: "A" }),
        op("ALTER TABLE t CHANGE COLUMN b b2 INT", "alter_rename_column", "folded", Some("T"), RenameColumn { from: "B", to: "B2" }),
        op("ALTER TABLE t RENAME TO u", "alter_rename_table", "folded", Some("T"), RenameTable { to: "U" }),
        op("ALTER TABLE t ADD CONSTRAINT uq UNIQUE (a)", "alter_add_unique", "folded", Some("T"), Constraint),
        op("ALTER TABLE t ADD CONSTRAINT uqb UNIQUE (b)", "alter_add_unique", "folded", Some("T"), Constraint),
        // DML
        op("INSERT INTO t VALUES (1, 10)", "insert", "folded", Some("T"), Dml),
        op("INSERT INTO t VALUES (2, 20), (3, 10)", "insert", "folded", Some("T"), Dml),
        op("INSERT INTO \"t\" VALUES (5, 50)", "insert", "delimited_lower", Some("t"), Dml),
        op("DELETE FROM t WHERE a = 1", "delete", "folded", Some("T"), Dml),
        op("UPDATE t SET a = a + 10", "update", "folded", Some("T"), Dml),
    ];
    if thorough {
        v.extend([
            op("DROP TABLE \"T\"", "drop_table", "delimited_upper", Some("T"), DropTable),
            op("DROP TABLE u", "drop_table", "folded", Some("U"), DropTable),
            op("CREATE INDEX j ON u (a)", "create_index", "folded", Some("U"), CreateIndex { name: "J", cols: vec!["A"] }),
            op("DROP INDEX j", "drop_index", "folded", None, DropIndex { name: "J", exact: true }),
            op("ALTER TABLE t ADD CONSTRAINT ck CHECK (a > 0)", "alter_add_check", "folded", Some("T"), Constraint),
            op("ALTER TABLE t DROP CONSTRAINT ck", "alter_drop_constraint", "folded", Some("T"), Constraint),
            op("INSERT INTO t VALUES (4, 40, 400)", "insert", "folded", Some("T"), Dml),
            op("INSERT INTO u VALUES (6, 10)", "insert", "folded", Some("U"), Dml),
            op("ALTER TABLE t ADD PRIMARY KEY (a)", "alter_add_pk", "folded", Some("T"), Constraint),
            op("ALTER TABLE \"t\" DROP COLUMN b", "alter_drop_column", "delimited_lower", Some("t"), DropColumn { col: "B" }),
            op("ALTER TABLE u ADD COLUMN c INT", "alter_add_column", "folded", Some("U"), AddColumn { col: "C" }),
            op("ALTER TABLE \"t\" RENAME TO u", "alter_rename_table", "delimited_lower", Some("t"), RenameTable { to: "U" }),
            op("DROP TABLE IF EXISTS \"public\".\"t\"", "drop_table", "qualified", Some("t"), DropTable),
            op("CREATE INDEX j ON t (a, b)", "create_index", "folded", Some("T"), CreateIndex { name: "J", cols: vec!["A", "B"] }),
            op("DELETE FROM t", "delete", "folded", Some("T"), Dml),
            op("INSERT INTO t (a) VALUES (7)", "insert", "folded", Some("T"), Dml),
        ]);
    }
    v
}

// ---------------------------------------------------------------------------------------------
// model of the declared objects
// ---------------------------------------------------------------------------------------------

#[derive(Clone, Debug, Default, PartialEq)]
pub struct M {
    /// declared table (exact stored name) -> declared column names in order
    tables: BTreeMap<String, Vec<String>>,
    /// declared index (upper-cased name) -> (table, columns)
    indexes: BTreeMap<String, (String, Vec<String>)>,
}

/// Result of a model step: the new model plus the indexes that the statement may legitimately
/// have removed or rewritten (DROP COLUMN / rename semantics differ between SQL products).
struct Stepped {
    m: M,
    /// index names whose absence is acceptable after this statement
    may_vanish: BTreeSet<String>,
    /// tables whose rows need not be preserved (dropped / newly created)
    column_map: Option<(String, String, BTreeMap<String, String>)>, // (pre table, post table, pre col -> post col)
}

fn model_step(m: &M, o: &Op, ok: bool) -> Stepped {
    let mut n = m.clone();
    let mut may_vanish = BTreeSet::new();
    let mut column_map = None;
    if !ok {
        return Stepped { m: n, may_vanish, column_map };
    }
    let tgt = o.target.map(|s| s.to_string());
    match &o.kind {
        Kind::CreateTable { cols } => {
            let t = tgt.unwrap();
            n.tables.insert(t, cols.iter().map(|c| c.to_string()).collect());
        }
        Kind::DropTable => {
            let t = tgt.unwrap();
            n.tables.remove(&t);
            n.indexes.retain(|_, (tb, _)| *tb != t);
        }
        Kind::CreateIndex { name, cols } => {
            let t = tgt.unwrap();
            if !n.indexes.contains_key(*name) && n.tables.contains_key(&t) {
                n.indexes.insert(name.to_string(), (t, cols.iter().map(|c| c.to_string()).collect()));
            }
        }
        Kind::DropIndex { name, exact } => {
            if *exact {
                n.indexes.remove(*name);
            } else {
                // a differently-cased delimited spelling: whether it denotes the index depends on
                // the (unstated) case rule for index names; both outcomes are accepted
                may_vanish.insert(name.to_string());
            }
        }
        Kind::AddColumn { col } => {
            if let Some(c) = n.tables.get_mut(tgt.as_ref().unwrap()) {
                c.push(col.to_string());
            }
        }
        Kind::DropColumn { col } => {
            let t = tgt.unwrap();
            if let Some(c) = n.tables.get_mut(&t) {
                c.retain(|x| x != col);
            }
            // an index over the dropped column may be dropped or lose the column
            for (iname, (tb, cols)) in n.indexes.iter_mut() {
                if *tb == t && cols.iter().any(|c| c == col) {
                    may_vanish.insert(iname.clone());
                    cols.retain(|c| c != col);
                }
            }
        }
        Kind::RenameColumn { from, to } => {
            let t = tgt.unwrap();
            if let Some(c) = n.tables.get_mut(&t) {
                let mut map = BTreeMap::new();
                for x in c.iter_mut() {
                    if x == from {
                        map.insert(from.to_string(), to.to_string());
                        *x = to.to_string();
                    } else {
                        map.insert(x.clone(), x.clone());
                    }
                }
                column_map = Some((t.clone(), t.clone(), map));
            }
            for (iname, (tb, cols)) in n.indexes.iter_mut() {
                if *tb == t && cols.iter().any(|c| c == from) {
                    may_vanish.insert(iname.clone());
                    for c in cols.iter_mut() {
                        if c == from {
                            *c = to.to_string();
                        }
                    }
                }
            }
        }
        Kind::RenameTable { to } => {
            let t = tgt.unwrap();
            if let Some(cols) = n.tables.remove(&t) {
                let map = cols.iter().map(|c| (c.clone(), c.clone())).collect();
                n.tables.insert(to.to_string(), cols);
                column_map = Some((t.clone(), to.to_string(), map));
            }
            // indexes of the renamed table may follow it or be dropped
            for (iname, (tb, _)) in n.indexes.iter_mut() {
                if *tb == t {
                    may_vanish.insert(iname.clone());
                    *tb = to.to_string();
                }
            }
        }
        Kind::Constraint | Kind::Dml => {}
    }
    Stepped { m: n, may_vanish, column_map }
}

// ---------------------------------------------------------------------------------------------
// views of the real database
// ---------------------------------------------------------------------------------------------

fn bare(key: &str) -> String {
    vcore::obs::bare(key)
}

type IdxView = BTreeMap<String, (String, Vec<String>)>;

fn storage_indexes(db: &Database) -> IdxView {
    let mut v = IdxView::new();
    for name in db.list_indexes() {
        if let Some(m) = db.get_index(&name) {
            v.insert(m.index_name.to_uppercase(), (m.table_name.clone(), m.columns.iter().map(|c| c.column_name.clone()).collect()));
        }
    }
    v
}

fn catalog_indexes(db: &Database) -> (IdxView, usize) {
    let mut v = IdxView::new();
    let all = db.catalog.list_all_indexes();
    let n = all.len();
    for m in all {
        v.insert(m.name.to_uppercase(), (m.table_name.clone(), m.columns.iter().map(|c| c.column_name.clone()).collect()));
    }
    (v, n)
}

/// user-visible content of a table: column names and rows as the SELECT front end returns them
fn visible(db: &Database, table: &str) -> Result<(Vec<String>, Vec<Vec<SqlValue>>), String> {
    select_cols(db, &format!("SELECT * FROM {}", q(table)))
}

/// content of a table as storage holds it (state invariant I2 ties it to what SELECT returns)
fn stored(db: &Database, table: &str) -> Option<(Vec<String>, Vec<Vec<SqlValue>>)> {
    let key = db.tables.keys().find(|k| bare(k) == table)?;
    let t = &db.tables[key];
    Some((t.schema.columns.iter().map(|c| c.name.clone()).collect(), t.scan().iter().map(|r| r.values.clone()).collect()))
}

fn project(cols: &[String], rows: &[Vec<SqlValue>], want: &[String]) -> Option<Vec<Vec<val::NV>>> {
    let idx: Option<Vec<usize>> = want.iter().map(|w| cols.iter().position(|c| c == w)).collect();
    let idx = idx?;
    let mut out: Vec<Vec<val::NV>> = vec![];
    for r in rows {
        let mut pr = vec![];
        for i in &idx {
            pr.push(val::norm(r.get(*i)?));
        }
        out.push(pr);
    }
    out.sort();
    Some(out)
}

/// All state invariants against the model. Returns (invariant id, description) of the first failure.
/// Text that determines what a query on `table` can see: its catalog entry and its stored table.
fn table_text(db: &Database, table: &str) -> String {
    let key = db.tables.keys().find(|k| bare(k) == table);
    format!("{:?}\u{1}{:?}", db.catalog.get_table(table), key.map(|k| &db.tables[k]))
}

/// Text of both index registries including the index data.
fn index_text(db: &Database) -> String {
    let mut names = db.list_indexes();
    names.sort();
    let data: Vec<String> = names.iter().map(|n| format!("{:?}={:?}", db.get_index(n), db.get_index_data(n).map(|d| format!("{:?}", d)))).collect();
    let mut cat: Vec<String> = db.catalog.list_all_indexes().iter().map(|i| format!("{:?}", i)).collect();
    cat.sort();
    format!("{:?}\u{1}{:?}", data, cat)
}

/// All state invariants against the model. With `since = Some(pre)` (a state in which they held),
/// the SELECT-based parts are evaluated only for what the transition changed: `SELECT *` for tables
/// whose catalog entry or stored table differs from `pre`, the point queries for those tables too, and
/// for every table if an index registry (definitions or data) changed. (Assumption: the answer of a query on a table is a function
/// of that table's catalog entry, its stored table and the index registries. Initial states and
/// replays pass `None` and evaluate everything.)
fn check_state(db: &Database, m: &M, may_vanish: &BTreeSet<String>, since: Option<&Database>) -> Option<(&'static str, String)> {
    let table_changed = |t: &str| match since {
        Some(pre) => table_text(pre, t) != table_text(db, t),
        None => true,
    };
    let indexes_changed = match since {
        Some(pre) => index_text(pre) != index_text(db),
        None => true,
    };
    // I1 — the three table listings name the declared tables
    let want: BTreeSet<String> = m.tables.keys().cloned().collect();
    let cat: BTreeSet<String> = db.catalog.list_tables().into_iter().collect();
    if cat != want {
        return Some(("catalog_table_listing", format!("catalog lists tables {:?}, declared are {:?}", cat, want)));
    }
    let sto: BTreeSet<String> = db.tables.keys().map(|k| bare(k)).collect();
    if sto != want || db.tables.len() != want.len() {
        return Some(("storage_table_listing", format!("storage holds tables {:?}, declared are {:?}", db.tables.keys().collect::<BTreeSet<_>>(), want)));
    }
    // I2 — every listed table is queryable with its declared columns, in all three places
    for (t, cols) in &m.tables {
        match db.catalog.get_table(t) {
            Some(s) => {
                let c: Vec<String> = s.columns.iter().map(|c| c.name.clone()).collect();
                if &c != cols {
                    return Some(("catalog_columns", format!("catalog describes {} with columns {:?}, declared are {:?}", t, c, cols)));
                }
            }
            None => return Some(("catalog_table_listing", format!("catalog lists {} but cannot describe it", t))),
        }
        let key = db.tables.keys().find(|k| bare(k) == *t).cloned().unwrap();
        let st = &db.tables[&key];
        let c: Vec<String> = st.schema.columns.iter().map(|c| c.name.clone()).collect();
        if &c != cols {
            return Some(("storage_columns", format!("stored table {} has columns {:?}, declared are {:?}", t, c, cols)));
        }
        // the catalog's and the stored table's copies of the definition are the same description
        let (a, b) = (vcore::fp::canon_debug(&format!("{:?}", db.catalog.get_table(t).unwrap())), vcore::fp::canon_debug(&format!("{:?}", st.schema)));
        if a != b {
            return Some(("schema_copies_differ", format!("catalog and storage hold different definitions of {}: {}", t, vcore::obs::first_diff(&a.replace(",", ",\n"), &b.replace(",", ",\n")))));
        }
        if st.schema.name != *t {
            return Some(("storage_columns", format!("stored table under key {} calls itself {}", key, st.schema.name)));
        }
        if let Some(r) = st.scan().iter().find(|r| r.values.len() != cols.len()) {
            return Some(("row_width", format!("stored table {} with {} columns holds a row of {} values", t, cols.len(), r.values.len())));
        }
        if !table_changed(t) {
            continue;
        }
        match visible(db, t) {
            Ok((c, rows)) => {
                if &c != cols {
                    return Some(("select_columns", format!("SELECT * FROM {} returns columns {:?}, declared are {:?}", q(t), c, cols)));
                }
                let stored_rows: Vec<Vec<SqlValue>> = st.scan().iter().map(|r| r.values.clone()).collect();
                if rows.iter().all(|r| r.len() == cols.len()) && rows.len() == st.row_count() && !val::same_bag(&rows, &stored_rows) {
                    return Some(("select_rows", format!("SELECT * FROM {} returns {} but the stored rows are {}", q(t), val::fmt_bag(&val::bag(&rows)), val::fmt_bag(&val::bag(&stored_rows)))));
                }
                if rows.iter().any(|r| r.len() != cols.len()) || rows.len() != st.row_count() {
                    return Some(("select_rows", format!("SELECT * FROM {} returns {} rows (widths {:?}) for {} stored rows of {} columns", q(t), rows.len(), rows.iter().map(|r| r.len()).collect::<BTreeSet<_>>(), st.row_count(), cols.len())));
                }
            }
            Err(e) => return Some(("not_queryable", format!("SELECT * FROM {} fails: {}", q(t), vcore::util::trunc(&e, 200)))),
        }
    }
    // I3 — both index registries list the same indexes, and those are the declared ones
    let si = storage_indexes(db);
    let (ci, ci_n) = catalog_indexes(db);
    if si != ci || ci_n != ci.len() || db.list_indexes().len() != si.len() {
        return Some(("index_registries_differ", format!("storage registry lists {:?}, catalog registry lists {:?}", si, ci)));
    }
    for (name, (tb, cols)) in &si {
        // I4 — no index without its table / columns
        let Some(tcols) = m.tables.get(tb) else {
            return Some(("index_without_table", format!("index {} is registered on table {} which is not a declared table ({:?})", name, tb, want)));
        };
        if let Some(c) = cols.iter().find(|c| !tcols.contains(c)) {
            return Some(("index_without_column", format!("index {} on {} covers column {} but the table has columns {:?}", name, tb, c, tcols)));
        }
        match m.indexes.get(name) {
            None => return Some(("undeclared_index", format!("index {} on {}({:?}) is registered but was never declared (or was dropped)", name, tb, cols))),
            Some((mt, mc)) => {
                if mt != tb || (mc != cols && !may_vanish.contains(name)) {
                    return Some(("index_definition", format!("index {} is registered on {}({:?}), declared on {}({:?})", name, tb, cols, mt, mc)));
                }
            }
        }
    }
    for name in m.indexes.keys() {
        if !si.contains_key(name) && !may_vanish.contains(name) {
            return Some(("declared_index_missing", format!("declared index {} is in neither registry", name)));
        }
    }
    // I5 — index entries mirror the rows (no stale entries, none missing)
    for (name, (tb, cols)) in &si {
        let key = db.tables.keys().find(|k| bare(k) == *tb).cloned().unwrap();
        let st = &db.tables[&key];
        let rows = st.scan();
        let ci: Vec<usize> = cols.iter().map(|c| st.schema.columns.iter().position(|x| x.name == *c).unwrap()).collect();
        let Some(IndexData::InMemory { data }) = db.get_index_data(name) else { continue };
        let mut seen: BTreeSet<usize> = BTreeSet::new();
        // rows whose key contains NULL may or may not be indexed
        let required: BTreeSet<usize> = rows.iter().enumerate().filter(|(_, r)| ci.iter().all(|i| !r.values[*i].is_null())).map(|(p, _)| p).collect();
        for (k, ps) in data.iter() {
            for p in ps {
                let Some(r) = rows.get(*p) else {
                    return Some(("stale_index_entry", format!("index {} on {} has an entry {:?} -> position {} but the table has {} rows", name, tb, k, p, rows.len())));
                };
                let rk: Vec<val::NV> = ci.iter().map(|i| val::norm(&r.values[*i])).collect();
                let ik: Vec<val::NV> = k.iter().map(val::norm).collect();
                if rk != ik {
                    return Some(("stale_index_entry", format!("index {} on {} maps key {:?} to position {} whose row has key {:?}", name, tb, ik, p, rk)));
                }
                if !seen.insert(*p) {
                    return Some(("stale_index_entry", format!("index {} on {} lists position {} twice", name, tb, p)));
                }
            }
        }
        if let Some(p) = required.iter().find(|p| !seen.contains(p)) {
            return Some(("missing_index_entry", format!("index {} on {} has no entry for the row at position {} ({} rows, {} indexed)", name, tb, p, rows.len(), seen.len())));
        }
    }
    // I5b — the hash index a stored table keeps for each PRIMARY KEY / UNIQUE constraint its
    // definition lists holds the keys of the rows (vcore C15, part 1; leftover hash indexes of
    // constraints that no longer exist are not looked at)
    if let Some((aspect, what)) = vcore::checks::c15::check_state(db, &|_| None) {
        let _ = aspect;
        return Some(("constraint_index_stale", what));
    }
    // I6 — point queries (which may be answered from an index) agree with a scan
    // (only columns that some registered index names can be answered from an index)
    let indexed_cols: BTreeSet<&String> = si.values().chain(ci.values()).flat_map(|(_, cols)| cols.iter()).collect();
    for (t, cols) in &m.tables {
        if !indexes_changed && !table_changed(t) {
            continue;
        }
        let Some((_, rows)) = stored(db, t) else { continue };
        for (ci, c) in cols.iter().enumerate() {
            if !indexed_cols.contains(c) {
                continue;
            }
            let mut vals: Vec<val::NV> = rows.iter().map(|r| val::norm(&r[ci])).filter(|v| *v != val::NV::Null).collect();
            vals.sort();
            vals.dedup();
            // one value that is absent as well: a stale entry for a vanished row would answer it
            vals.push(val::NV::Int(10));
            vals.dedup();
            // one value that is present and the absent one
            if vals.len() > 2 {
                vals.drain(1..vals.len() - 1);
            }
            for v in vals.iter() {
                let val::NV::Int(lit) = v else { continue };
                let sql = format!("SELECT * FROM {} WHERE {} = {}", q(t), c, lit);
                let want: Vec<Vec<val::NV>> = {
                    let mut w: Vec<Vec<val::NV>> = rows.iter().filter(|r| val::norm(&r[ci]) == *v).map(|r| val::norm_row(r)).collect();
                    w.sort();
                    w
                };
                match select_cols(db, &sql) {
                    Ok((_, got)) => {
                        if val::bag(&got) != want {
                            return Some(("probe_query", format!("`{}` returns {} but the rows of the table give {}", sql, val::fmt_bag(&val::bag(&got)), val::fmt_bag(&want))));
                        }
                    }
                    Err(e) => return Some(("probe_query", format!("`{}` fails: {}", sql, vcore::util::trunc(&e, 200)))),
                }
            }
        }
    }
    None
}

/// Transition checks: a (re-)created table starts empty and un-indexed; DDL keeps retained data.
fn check_transition(pre: &Database, m: &M, o: &Op, post: &Database, s: &Stepped, ok: bool) -> Option<(&'static str, String)> {
    if let (Kind::CreateTable { .. }, true) = (&o.kind, ok) {
        let t = o.target.unwrap();
        if let Some((_, rows)) = stored(post, t) {
            if !rows.is_empty() {
                return Some(("created_table_not_empty", format!("table {} was just created but holds {}", t, val::fmt_rows(&rows))));
            }
        }
        for (name, (tb, _)) in storage_indexes(post).iter().chain(catalog_indexes(post).0.iter()) {
            if tb == t {
                return Some(("created_table_has_index", format!("table {} was just created but index {} is registered on it", t, name)));
            }
        }
    }
    if o.kind == Kind::Dml {
        return None;
    }
    // data of retained columns (any DDL statement, whatever its outcome)
    for (t, pre_cols) in &m.tables {
        let (post_t, map): (String, BTreeMap<String, String>) = match &s.column_map {
            Some((a, b, map)) if a == t => (b.clone(), map.clone()),
            _ => (t.clone(), pre_cols.iter().map(|c| (c.clone(), c.clone())).collect()),
        };
        let Some(post_cols) = s.m.tables.get(&post_t) else { continue }; // dropped
        if let (Kind::CreateTable { .. }, true) = (&o.kind, ok) {
            if o.target == Some(t.as_str()) {
                continue; // re-created
            }
        }
        let retained: Vec<(String, String)> = pre_cols.iter().filter_map(|c| map.get(c).map(|d| (c.clone(), d.clone()))).filter(|(_, d)| post_cols.contains(d)).collect();
        let (Some((pc, pr)), Some((qc, qr))) = (stored(pre, t), stored(post, &post_t)) else { continue };
        let a = project(&pc, &pr, &retained.iter().map(|x| x.0.clone()).collect::<Vec<_>>());
        let b = project(&qc, &qr, &retained.iter().map(|x| x.1.clone()).collect::<Vec<_>>());
        if let (Some(a), Some(b)) = (a, b) {
            if a != b {
                return Some(("retained_data_changed", format!("columns {:?} of {} held {} before and {} after", retained.iter().map(|x| &x.0).collect::<Vec<_>>(), t, val::fmt_bag(&a), val::fmt_bag(&b))));
            }
        }
    }
    None
}

// ---------------------------------------------------------------------------------------------
// the search
// ---------------------------------------------------------------------------------------------

struct C33Spec {
    /// (fingerprint of the database, model) pairs whose state invariants already held; None in
    /// the stateless guard pass, which must not rely on the fingerprint
    checked: Option<std::sync::Mutex<std::collections::HashSet<u128>>>,
    ops: Vec<Op>,
    by_sql: HashMap<String, usize>,
    preludes: Vec<Vec<&'static str>>,
}

const PRELUDES: &[&[&str]] = &[
    &[],
    &["CREATE TABLE t (a INT, b INT)", "INSERT INTO t VALUES (1, 10), (2, 20)", "CREATE INDEX i ON t (b)"],
    &["CREATE TABLE t (a INT, b INT)", "CREATE TABLE \"t\" (a INT, b INT)", "INSERT INTO t VALUES (1, 10)", "INSERT INTO \"t\" VALUES (5, 10)", "CREATE INDEX i ON \"t\" (b)"],
];

fn prelude_model(stmts: &[&str], ops: &[Op]) -> (Database, M) {
    let mut db = Database::new();
    let mut m = M::default();
    for s in stmts {
        let o = ops.iter().find(|o| o.sql == *s).cloned().unwrap_or_else(|| op(s, "insert", "folded", None, Kind::Dml));
        let out = apply_op(&mut db, s);
        if !out.is_ok() {
            panic!("harness prelude statement failed: {} => {}", s, out.brief());
        }
        m = model_step(&m, &o, true).m;
    }
    (db, m)
}

fn case_json(prelude: &[&str], hist: &[String]) -> serde_json::Value {
    json!({"prelude": prelude, "steps": hist})
}

impl C33Spec {
    fn new(thorough: bool) -> Self {
        let ops = alphabet(thorough);
        let by_sql = ops.iter().enumerate().map(|(i, o)| (o.sql.clone(), i)).collect();
        C33Spec { checked: Some(Default::default()), ops, by_sql, preludes: PRELUDES.iter().map(|p| p.to_vec()).collect() }
    }
}

/// model + index of the prelude the history started from (needed for replay files)
#[derive(Clone)]
pub struct MS {
    m: M,
    prelude: usize,
}

fn signature(inv: &str, o: &Op, m: &M) -> Vec<(&'static str, String)> {
    let tgt_exists = o.target.map(|t| m.tables.contains_key(t));
    let idx_on_target = o.target.map(|t| m.indexes.values().any(|(tb, _)| tb == t)).unwrap_or(false);
    let other_case_exists = match o.target {
        Some("T") => m.tables.contains_key("t"),
        Some("t") => m.tables.contains_key("T"),
        _ => false,
    };
    vec![
        ("invariant", inv.to_string()),
        ("stmt", o.shape.to_string()),
        ("spelling", o.spelling.to_string()),
        ("target_declared", tgt_exists.map(|b| b.to_string()).unwrap_or_else(|| "-".into())),
        ("index_on_target", idx_on_target.to_string()),
        ("other_case_twin_declared", other_case_exists.to_string()),
    ]
}

impl Spec for C33Spec {
    type M = MS;
    fn init(&self) -> Vec<Node<MS>> {
        self.preludes
            .iter()
            .enumerate()
            .map(|(i, p)| {
                let (db, m) = prelude_model(p, &self.ops);
                Node { db, model: MS { m, prelude: i }, hist: vec![] }
            })
            .collect()
    }
    fn alphabet(&self, _db: &Database, _m: &MS, _h: &[String]) -> Vec<String> {
        self.ops.iter().map(|o| o.sql.clone()).collect()
    }
    fn apply(&self, db: &mut Database, op: &str) -> Out {
        apply_op(db, op)
    }
    fn model_key(&self, m: &MS) -> String {
        format!("{:?}", m.m)
    }
    fn step(&self, pre: &Database, ms: &MS, op: &str, post: &Database, out: &Out, hist: &[String], rep: &Report) -> Option<MS> {
        let o = &self.ops[self.by_sql[op]];
        let ok = out.is_ok();
        let s = model_step(&ms.m, o, ok);
        let state_key = self.checked.as_ref().map(|_| vcore::util::hash128(format!("{}\u{1}{:?}\u{1}{:?}", vcore::fp::canon(post), s.m, s.may_vanish).as_bytes()));
        let seen = match (&self.checked, state_key) {
            (Some(c), Some(k)) => c.lock().unwrap().contains(&k),
            _ => false,
        };
        let bad = check_transition(pre, &ms.m, o, post, &s, ok).or_else(|| if seen { None } else { check_state(post, &s.m, &s.may_vanish, Some(pre)) });
        if let (None, Some(c), Some(k)) = (&bad, &self.checked, state_key) {
            c.lock().unwrap().insert(k);
        }
        if let Some((inv, what)) = bad {
            // re-execute the case from scratch twice before reporting it (DESIGN R3)
            let case = case_json(&self.preludes[ms.prelude], hist);
            let again = [run_case(&case, false), run_case(&case, false)];
            if again.iter().all(|r| matches!(r, Ok(Some((i, _))) if i == inv)) {
                rep.violation(&signature(inv, o, &ms.m), format!("after `{}` ({}): {}", op, out.brief(), what), case);
            } else {
                rep.machinery_error(format!("case {:?} gave `{}` in the search but {:?} when re-executed", hist, inv, again));
            }
            return None; // inconsistent states are reported, not expanded
        }
        // an index that legitimately vanished leaves the model
        let mut m2 = s.m;
        if !s.may_vanish.is_empty() {
            let si = storage_indexes(post);
            m2.indexes.retain(|k, _| si.contains_key(k));
            for (k, v) in si {
                m2.indexes.insert(k, v);
            }
        }
        Some(MS { m: m2, prelude: ms.prelude })
    }
}

pub fn run(tier: &str) -> i32 {
    let mut rep = Report::new("C33", tier, "model_checking");
    vibesql_types::verif::reset();
    let thorough = tier == "thorough";
    let spec = C33Spec::new(thorough);
    // self-test of the oracle on the initial states: a check that rejects its own preludes is broken
    for n in spec.init() {
        if let Some((inv, what)) = check_state(&n.db, &n.model.m, &BTreeSet::new(), None) {
            rep.machinery_error(format!("oracle rejects prelude #{}: {} {}", n.model.prelude, inv, what));
            return rep.finish();
        }
    }
    let (d_state, d_tree) = if thorough { (5, 3) } else { (3, 2) };
    let caps = Caps { max_states: if thorough { 2_000_000 } else { 300_000 }, max_secs: if thorough { 420.0 } else { 22.0 } };
    // the guard pass re-checks every state (no verdict cache); the quick tier runs it from the
    // populated, indexed initial database only
    let mut guard = C33Spec { checked: None, ..C33Spec::new(thorough) };
    if !thorough {
        guard.preludes = vec![PRELUDES[1].to_vec()];
    }
    let st2 = histmc::bfs(&guard, d_tree, false, &rep, &Caps { max_states: 5_000_000, max_secs: if thorough { 180.0 } else { 15.0 } });
    let st = histmc::bfs(&spec, d_state, true, &rep, &caps);
    histmc::stats_into(&mut rep, "", &st);
    histmc::stats_into(&mut rep, "stateless_guard_", &st2);
    rep.set("alphabet_size", json!(spec.ops.len()));
    rep.set("select_statements_executed_by_the_oracle", json!(crate::common::SELECTS.load(std::sync::atomic::Ordering::Relaxed)));
    rep.set("oracle_select_thread_seconds", json!(crate::common::SELECT_NANOS.load(std::sync::atomic::Ordering::Relaxed) as f64 / 1e9));
    rep.set("initial_states", json!(spec.preludes.len()));
    rep.set("exhaustive", json!(!st.capped && !st2.capped));
    rep.set("samples", json!(st.samples));
    rep.set("rule", json!("BFS over all statement histories of the alphabet from three initial databases on the real Database; states merged on the canonical Debug fingerprint of the whole value plus the model of declared objects; in every reached state: catalog listing = storage tables = declared tables, declared columns = catalog columns = stored columns = SELECT * columns, both index registries equal and refer to declared tables/columns, index entries mirror the rows, point queries agree with a scan; every DDL transition keeps the data of retained columns; a created table is empty and un-indexed; inconsistent states are reported and not expanded"));
    let (reach, vac) = vcore::report::reach_json(&["index_scan"]);
    rep.set("reach", reach);
    rep.set("vacuous_mechanisms", vac);
    rep.assume("equal canonical Debug fingerprints imply equal futures (all Database fields are printed; masked fields listed in vcore/fp.rs)");
    rep.assume("identifier rules as documented in Catalog::new: unquoted identifiers fold to upper case, delimited identifiers keep their case, lookups are case-sensitive");
    rep.finish()
}

fn run_case(case: &serde_json::Value, verbose: bool) -> Result<Option<(String, String)>, String> {
    let ops = alphabet(true);
    let prelude: Vec<String> = case["prelude"].as_array().map(|a| a.iter().filter_map(|x| x.as_str().map(|s| s.to_string())).collect()).unwrap_or_default();
    let steps: Vec<String> = case["steps"].as_array().map(|a| a.iter().filter_map(|x| x.as_str().map(|s| s.to_string())).collect()).unwrap_or_default();
    let pre_refs: Vec<&str> = prelude.iter().map(|s| s.as_str()).collect();
    let (mut db, mut m) = prelude_model(&pre_refs, &ops);
    if verbose {
        for p in &prelude {
            println!("{}", p);
        }
        println!("{}", describe(&db));
    }
    for sql in &steps {
        let Some(o) = ops.iter().find(|o| o.sql == *sql) else { return Err(format!("unknown op {}", sql)) };
        let pre = db.clone();
        let out = apply_op(&mut db, sql);
        let ok = out.is_ok();
        let s = model_step(&m, o, ok);
        if verbose {
            println!("{}\n   => {}", sql, out.brief());
            println!("{}", describe(&db));
            println!("  declared: tables {:?} indexes {:?}", s.m.tables, s.m.indexes);
        }
        let bad = check_transition(&pre, &m, o, &db, &s, ok).or_else(|| check_state(&db, &s.m, &s.may_vanish, None));
        if let Some((inv, what)) = bad {
            return Ok(Some((inv.to_string(), what)));
        }
        m = s.m;
        if !s.may_vanish.is_empty() {
            let si = storage_indexes(&db);
            m.indexes.retain(|k, _| si.contains_key(k));
            for (k, v) in si {
                m.indexes.insert(k, v);
            }
        }
    }
    Ok(None)
}

pub fn replay(case: &serde_json::Value) -> i32 {
    match run_case(case, true) {
        Ok(Some((inv, what))) => {
            println!("VIOLATED invariant {}: {}", inv, what);
            1
        }
        Ok(None) => {
            println!("no invariant violated on this tree");
            0
        }
        Err(e) => {
            eprintln!("MACHINERY-ERROR {}", e);
            2
        }
    }
}
