//! `fkatomcheck` — checks C11, C12.
//!   fkatomcheck check <ID> <quick|thorough>
//!   fkatomcheck replay <path>

mod c11;
mod model;
mod sx;
mod c12;

// Every SelectExecutor allocates a zeroed 10 MiB arena per query; pool those blocks (see vcore::bigalloc)
#[global_allocator]
static GLOBAL: vcore::bigalloc::ArenaCache = vcore::bigalloc::ArenaCache;

fn usage() -> ! {
    eprintln!("usage: fkatomcheck check <C11|C12> <quick|thorough> | fkatomcheck replay <path>");
    std::process::exit(2)
}

fn replay(path: &str) -> i32 {
    let text = match std::fs::read_to_string(path) {
        Ok(t) => t,
        Err(e) => {
            eprintln!("cannot read {}: {}", path, e);
            return 2;
        }
    };
    let v: serde_json::Value = match serde_json::from_str(&text) {
        Ok(v) => v,
        Err(e) => {
            eprintln!("bad replay file: {}", e);
            return 2;
        }
    };
    println!("property: {}", v["property"].as_str().unwrap_or("?"));
    println!("signature: {}", v["signature"]);
    println!("recorded: {}", v["what"].as_str().unwrap_or(""));
    println!("-- re-execution");
    match v["property"].as_str() {
        Some("C11") => c11::replay(&v["case"]),
        Some("C12") => c12::replay(&v["case"]),
        _ => {
            eprintln!("not a replay file of this package");
            2
        }
    }
}

fn bench() {
    use std::time::Instant;
    let t = Instant::now();
    for _ in 0..200 {
        let _d = vibesql_storage::Database::new();
    }
    println!("Database::new x200: {:?}", t.elapsed());
    let cfgs = c12::configs(false);
    let cfg = &cfgs[0];
    let mut db = sx::fresh(&cfg.prelude).unwrap();
    sx::apply(&mut db, "INSERT INTO p VALUES (1, 10), (2, 20), (3, 30)");
    sx::apply(&mut db, "INSERT INTO c VALUES (1, 1), (2, 2)");
    let t = Instant::now();
    for _ in 0..200 {
        let _d = db.clone();
    }
    println!("clone x200: {:?}", t.elapsed());
    let t = Instant::now();
    for _ in 0..200 {
        let _ = vcore::fp::canon(&db);
    }
    println!("canon x200: {:?}", t.elapsed());
    let t = Instant::now();
    for _ in 0..200 {
        let mut d = db.clone();
        sx::apply(&mut d, "DELETE FROM p WHERE id = 2");
    }
    println!("clone+delete x200: {:?}", t.elapsed());
    let t = Instant::now();
    for _ in 0..200 {
        let _ = sx::read_schema_tables(&db, &cfg.schema);
    }
    println!("read_tables x200: {:?}", t.elapsed());
    let t = Instant::now();
    for _ in 0..50 {
        let _ = vcore::obs::obs_state(&db);
    }
    println!("obs_state x50: {:?}", t.elapsed());
    let t = Instant::now();
    for _ in 0..200 {
        let _ = sx::fresh(&cfg.prelude);
    }
    println!("fresh x200: {:?}", t.elapsed());
}

fn main() {
    let args: Vec<String> = std::env::args().collect();
    if args.len() < 2 {
        usage();
    }
    if std::env::var("PARALLEL_THRESHOLD").is_err() {
        std::env::set_var("PARALLEL_THRESHOLD", "max");
    }
    vcore::exec::silence_panics();
    let code = match args[1].as_str() {
        "check" if args.len() >= 4 => match args[2].as_str() {
            "C11" => c11::run(&args[3]),
            "C12" => c12::run(&args[3]),
            other => {
                eprintln!("fkatomcheck does not implement {}", other);
                2
            }
        },
        "replay" if args.len() >= 3 => replay(&args[2]),
        "worker" if args.len() >= 5 => match args[2].as_str() {
            "C11" => c11::worker(&args[3], &args[4]),
            "C12" => c12::worker(&args[3], &args[4]),
            _ => 2,
        },
        "bench" => {
            bench();
            0
        }
        _ => usage(),
    };
    std::process::exit(code);
}
