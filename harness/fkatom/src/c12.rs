//! C12 — referential integrity holds after every statement; ON DELETE / ON UPDATE actions produce the
//! specified child changes; statements that would orphan a child row are rejected (DESIGN §5 C12).
//!
//! One explicit-state search (`vcore::histmc`, real parser + executor, states merged on the canonical
//! whole-value fingerprint) per *configuration*: a schema family × declaration form × action pair.
//! In every transition the harness
//!   1. recomputes the invariant from table scans (declared foreign keys as the DDL of the prelude
//!      states them, independent of the catalog's bookkeeping): every non-NULL fk has a parent;
//!   2. asks the reference model (`model.rs`) what the statement must do on the pre-state and, when
//!      the engine accepted it, compares all tables with the model's result (action conformance) and
//!      reports accepted statements the model must reject (orphaning statements).
//! A statement the engine rejects although the model would apply it is not a violation.

use std::collections::{BTreeMap, HashMap, HashSet};
use std::sync::Mutex;

use serde_json::{json, Value};
use vibesql_storage::Database;

use vcore::exec::Out;
use vcore::histmc::{self, Caps, Node, Spec};
use vcore::report::Report;

use crate::model::{self, Act, Fk, Op, Pred, Schema, SetExpr, TableDecl};
use crate::sx;

pub struct Cfg {
    pub name: String,
    pub family: &'static str,
    pub form: &'static str,
    pub on_delete: String,
    pub on_update: String,
    pub prelude: Vec<String>,
    pub schema: Schema,
    pub ops: Vec<Op>,
}

fn act_clause(od: Act, ou: Act) -> String {
    let mut s = String::new();
    // RESTRICT has no keyword in this parser: declared as NO ACTION (omitted) and patched in the AST
    for (kw, a) in [("DELETE", od), ("UPDATE", ou)] {
        match a {
            Act::NoAction | Act::Restrict => {}
            other => s.push_str(&format!(" ON {} {}", kw, other.label())),
        }
    }
    s
}

fn wrap_restrict(sql: String, od: Act, ou: Act) -> String {
    let mut w = String::new();
    if od == Act::Restrict {
        w.push('d');
    }
    if ou == Act::Restrict {
        w.push('u');
    }
    if w.is_empty() {
        sql
    } else {
        format!("#RESTRICT {} :: {}", w, sql)
    }
}

fn ins(table: &'static str, rows: &[&[Option<i64>]]) -> Op {
    Op::Insert { table, cols: None, rows: rows.iter().map(|r| r.to_vec()).collect() }
}
fn del(table: &'static str, pred: Pred) -> Op {
    Op::Delete { table, pred }
}
fn upd(table: &'static str, pred: Pred, col: usize, set: SetExpr) -> Op {
    Op::Update { table, pred, col, set }
}
const N: Option<i64> = None;
fn s(i: i64) -> Option<i64> {
    Some(i)
}

/// parent p(id PK, v UNIQUE), child c(id PK, pid DEFAULT 1 → p.id)
fn pc_cfg(form: &'static str, od: Act, ou: Act, thorough: bool) -> Cfg {
    let p = "CREATE TABLE p (id INT PRIMARY KEY, v INT UNIQUE)".to_string();
    // the fk column has a DEFAULT only where SET DEFAULT needs one: an explicit NULL written into a
    // column with a default is stored as the default by this engine (a matter of C09, not of C12)
    let with_default = od == Act::SetDefault || ou == Act::SetDefault;
    let dflt = if with_default { " DEFAULT 1" } else { "" };
    let c = if form == "table" {
        format!("CREATE TABLE c (id INT PRIMARY KEY, pid INT{}, FOREIGN KEY (pid) REFERENCES p (id){})", dflt, act_clause(od, ou))
    } else {
        format!("CREATE TABLE c (id INT PRIMARY KEY, pid INT{} REFERENCES p (id){})", dflt, act_clause(od, ou))
    };
    let schema = Schema {
        tables: vec![
            TableDecl { name: "P", cols: vec!["id", "v"], defaults: vec![N, N] },
            TableDecl { name: "C", cols: vec!["id", "pid"], defaults: vec![N, if with_default { s(1) } else { N }] },
        ],
        fks: vec![Fk { child: "C", cols: vec![1], parent: "P", pcols: vec![0], on_delete: od, on_update: ou }],
    };
    let mut ops = vec![
        ins("P", &[&[s(1), s(10)]]),
        ins("P", &[&[s(2), s(20)]]),
        ins("P", &[&[s(1), s(10)], &[s(2), s(20)], &[s(3), s(30)]]),
        ins("C", &[&[s(1), s(1)]]),
        ins("C", &[&[s(2), s(2)]]),
        ins("C", &[&[s(4), s(9)]]),
        ins("C", &[&[s(1), s(1)], &[s(2), s(2)]]),
        ins("C", &[&[s(5), s(1)], &[s(6), s(9)]]),
        Op::Insert { table: "C", cols: Some(vec![0]), rows: vec![vec![s(7)]] },
        del("P", Pred::Eq(0, 1)),
        del("P", Pred::Eq(0, 2)),
        del("P", Pred::Ge(0, 2)),
        del("P", Pred::NoWhere),
        del("P", Pred::Eq(1, 10)),
        upd("P", Pred::Eq(0, 1), 0, SetExpr::Const(s(3))),
        upd("P", Pred::NoWhere, 0, SetExpr::Add(10)),
        upd("P", Pred::Eq(0, 1), 0, SetExpr::Const(s(1))),
        upd("P", Pred::Eq(1, 20), 0, SetExpr::Const(s(5))),
        upd("P", Pred::Eq(0, 1), 1, SetExpr::Const(s(11))),
        upd("C", Pred::Eq(0, 1), 1, SetExpr::Const(s(2))),
        upd("C", Pred::Eq(0, 1), 1, SetExpr::Const(s(9))),
        upd("C", Pred::Eq(0, 2), 1, SetExpr::Const(N)),
        upd("C", Pred::NoWhere, 1, SetExpr::Add(1)),
        del("C", Pred::Eq(0, 1)),
        Op::Truncate { table: "P", cascade: false },
        Op::Truncate { table: "C", cascade: false },
    ];
    if !with_default {
        ops.push(ins("C", &[&[s(3), N]]));
    }
    if thorough {
        ops.extend([
            Op::Truncate { table: "P", cascade: true },
            del("C", Pred::NoWhere),
            upd("C", Pred::NoWhere, 1, SetExpr::Const(s(2))),
            upd("P", Pred::All, 0, SetExpr::Add(1)),
            del("P", Pred::All),
        ]);
    }
    Cfg {
        name: format!("pc/{}/{}/{}", form, od.label(), ou.label()),
        family: "pc",
        form,
        on_delete: od.label().into(),
        on_update: ou.label().into(),
        prelude: vec![p, wrap_restrict(c, od, ou)],
        schema,
        ops,
    }
}

/// self-referencing e(id PK, boss → e.id); the constraint is added with ALTER TABLE because CREATE
/// TABLE looks the referenced table up before it exists
fn self_cfg(od: Act, ou: Act) -> Cfg {
    let schema = Schema {
        tables: vec![TableDecl { name: "E", cols: vec!["id", "boss"], defaults: vec![N, N] }],
        fks: vec![Fk { child: "E", cols: vec![1], parent: "E", pcols: vec![0], on_delete: od, on_update: ou }],
    };
    let ops = vec![
        ins("E", &[&[s(1), N]]),
        ins("E", &[&[s(2), s(1)]]),
        ins("E", &[&[s(3), s(2)]]),
        ins("E", &[&[s(4), N]]),
        ins("E", &[&[s(5), s(9)]]),
        ins("E", &[&[s(6), s(6)]]),
        ins("E", &[&[s(7), N], &[s(8), s(7)]]),
        ins("E", &[&[s(4), N], &[s(1), N], &[s(3), N]]),
        upd("E", Pred::Eq(0, 4), 1, SetExpr::Const(s(1))),
        del("E", Pred::Eq(0, 1)),
        del("E", Pred::Eq(0, 2)),
        del("E", Pred::Ge(0, 2)),
        del("E", Pred::NoWhere),
        upd("E", Pred::Eq(0, 1), 0, SetExpr::Const(s(9))),
        upd("E", Pred::NoWhere, 0, SetExpr::Add(10)),
        upd("E", Pred::Eq(0, 2), 1, SetExpr::Const(s(4))),
        upd("E", Pred::Eq(0, 4), 1, SetExpr::Const(s(2))),
        upd("E", Pred::Eq(0, 1), 1, SetExpr::Const(s(2))),
        upd("E", Pred::Eq(0, 2), 1, SetExpr::Const(s(8))),
        Op::Truncate { table: "E", cascade: false },
    ];
    Cfg {
        name: format!("self/alter/{}/{}", od.label(), ou.label()),
        family: "self",
        form: "alter",
        on_delete: od.label().into(),
        on_update: ou.label().into(),
        prelude: vec![
            "CREATE TABLE e (id INT PRIMARY KEY, boss INT)".into(),
            format!("ALTER TABLE e ADD CONSTRAINT fke FOREIGN KEY (boss) REFERENCES e (id){}", act_clause(od, ou)),
        ],
        schema,
        ops,
    }
}

/// chain g → c → p: c.pid → p.id (CASCADE/CASCADE), g.cid → c.id with the given delete action
fn chain_cfg(gd: Act) -> Cfg {
    let schema = Schema {
        tables: vec![
            TableDecl { name: "P", cols: vec!["id"], defaults: vec![N] },
            TableDecl { name: "C", cols: vec!["id", "pid"], defaults: vec![N, N] },
            TableDecl { name: "G", cols: vec!["id", "cid"], defaults: vec![N, N] },
        ],
        fks: vec![
            Fk { child: "C", cols: vec![1], parent: "P", pcols: vec![0], on_delete: Act::Cascade, on_update: Act::Cascade },
            Fk { child: "G", cols: vec![1], parent: "C", pcols: vec![0], on_delete: gd, on_update: Act::NoAction },
        ],
    };
    let ops = vec![
        ins("P", &[&[s(1)], &[s(2)]]),
        ins("C", &[&[s(1), s(1)]]),
        ins("C", &[&[s(2), s(2)]]),
        ins("C", &[&[s(3), s(1)]]),
        // two children of parent 1 in one statement: a blocked grandchild below the *second* of them
        // is then within the quick bound (pre-checks that stop at the first referencing row)
        ins("C", &[&[s(1), s(1)], &[s(3), s(1)]]),
        ins("G", &[&[s(1), s(1)]]),
        ins("G", &[&[s(2), s(2)]]),
        ins("G", &[&[s(3), s(3)]]),
        ins("G", &[&[s(4), s(9)]]),
        del("P", Pred::Eq(0, 1)),
        del("P", Pred::Eq(0, 2)),
        del("P", Pred::NoWhere),
        del("C", Pred::Eq(0, 1)),
        del("C", Pred::NoWhere),
        upd("P", Pred::NoWhere, 0, SetExpr::Add(10)),
        upd("C", Pred::Eq(0, 1), 0, SetExpr::Const(s(5))),
        upd("G", Pred::NoWhere, 1, SetExpr::Add(1)),
    ];
    Cfg {
        name: format!("chain/table/g:{}", gd.label()),
        family: "chain",
        form: "table",
        on_delete: format!("CASCADE,{}", gd.label()),
        on_update: "CASCADE,NO ACTION".into(),
        prelude: vec![
            "CREATE TABLE p (id INT PRIMARY KEY)".into(),
            "CREATE TABLE c (id INT PRIMARY KEY, pid INT, FOREIGN KEY (pid) REFERENCES p (id) ON DELETE CASCADE ON UPDATE CASCADE)".into(),
            format!("CREATE TABLE g (id INT PRIMARY KEY, cid INT, FOREIGN KEY (cid) REFERENCES c (id){})", act_clause(gd, Act::NoAction)),
        ],
        schema,
        ops,
    }
}

/// two children of one parent with different actions; both creation orders (actions are performed
/// in catalog order)
fn two_cfg(first_cascade: bool, a: Act) -> Cfg {
    let c1 = "CREATE TABLE c1 (id INT PRIMARY KEY, pid INT, FOREIGN KEY (pid) REFERENCES p (id) ON DELETE CASCADE ON UPDATE CASCADE)".to_string();
    let c2 = format!("CREATE TABLE c2 (id INT PRIMARY KEY, pid INT, FOREIGN KEY (pid) REFERENCES p (id){})", act_clause(a, a));
    let schema = Schema {
        tables: vec![
            TableDecl { name: "P", cols: vec!["id"], defaults: vec![N] },
            TableDecl { name: "C1", cols: vec!["id", "pid"], defaults: vec![N, N] },
            TableDecl { name: "C2", cols: vec!["id", "pid"], defaults: vec![N, N] },
        ],
        fks: vec![
            Fk { child: "C1", cols: vec![1], parent: "P", pcols: vec![0], on_delete: Act::Cascade, on_update: Act::Cascade },
            Fk { child: "C2", cols: vec![1], parent: "P", pcols: vec![0], on_delete: a, on_update: a },
        ],
    };
    let ops = vec![
        ins("P", &[&[s(1)], &[s(2)], &[s(3)]]),
        ins("P", &[&[s(1)]]),
        ins("C1", &[&[s(1), s(1)]]),
        ins("C1", &[&[s(2), s(2)]]),
        ins("C2", &[&[s(1), s(1)]]),
        ins("C2", &[&[s(2), s(2)]]),
        ins("C2", &[&[s(3), s(3)]]),
        del("P", Pred::Eq(0, 1)),
        del("P", Pred::Eq(0, 2)),
        del("P", Pred::NoWhere),
        del("P", Pred::Ge(0, 1)),
        upd("P", Pred::NoWhere, 0, SetExpr::Add(10)),
        upd("P", Pred::Eq(0, 1), 0, SetExpr::Const(s(7))),
        del("C2", Pred::NoWhere),
    ];
    let (x, y) = if first_cascade { (c1, c2) } else { (c2, c1) };
    Cfg {
        name: format!("two/table/{}-first/{}", if first_cascade { "cascade" } else { "other" }, a.label()),
        family: "two",
        form: "table",
        on_delete: format!("CASCADE+{}", a.label()),
        on_update: format!("CASCADE+{}", a.label()),
        prelude: vec!["CREATE TABLE p (id INT PRIMARY KEY)".into(), x, y],
        schema,
        ops,
    }
}

/// child references the UNIQUE non-key column p.v
fn uniq_cfg(od: Act, ou: Act) -> Cfg {
    let schema = Schema {
        tables: vec![
            TableDecl { name: "P", cols: vec!["id", "v"], defaults: vec![N, N] },
            TableDecl { name: "C", cols: vec!["id", "pv"], defaults: vec![N, N] },
        ],
        fks: vec![Fk { child: "C", cols: vec![1], parent: "P", pcols: vec![1], on_delete: od, on_update: ou }],
    };
    let ops = vec![
        ins("P", &[&[s(1), s(10)]]),
        ins("P", &[&[s(2), s(1)]]),
        ins("P", &[&[s(10), s(20)]]),
        ins("C", &[&[s(1), s(10)]]),
        ins("C", &[&[s(2), s(1)]]),
        ins("C", &[&[s(3), s(2)]]),
        ins("C", &[&[s(4), N]]),
        del("P", Pred::Eq(0, 1)),
        del("P", Pred::Eq(0, 2)),
        del("P", Pred::Eq(1, 10)),
        del("P", Pred::NoWhere),
        upd("P", Pred::Eq(0, 1), 1, SetExpr::Const(s(11))),
        upd("P", Pred::Eq(0, 1), 0, SetExpr::Const(s(5))),
        upd("P", Pred::NoWhere, 1, SetExpr::Add(100)),
        upd("C", Pred::Eq(0, 1), 1, SetExpr::Const(s(1))),
    ];
    Cfg {
        name: format!("uniq/table/{}/{}", od.label(), ou.label()),
        family: "uniq",
        form: "table",
        on_delete: od.label().into(),
        on_update: ou.label().into(),
        prelude: vec![
            "CREATE TABLE p (id INT PRIMARY KEY, v INT UNIQUE)".into(),
            wrap_restrict(
                format!("CREATE TABLE c (id INT PRIMARY KEY, pv INT, FOREIGN KEY (pv) REFERENCES p (v){})", act_clause(od, ou)),
                od,
                ou,
            ),
        ],
        schema,
        ops,
    }
}

/// the child's foreign key is its own primary key and is referenced in turn by g
fn pkfk_cfg(gu: Act) -> Cfg {
    let schema = Schema {
        tables: vec![
            TableDecl { name: "P", cols: vec!["id"], defaults: vec![N] },
            TableDecl { name: "C", cols: vec!["pid", "w"], defaults: vec![N, N] },
            TableDecl { name: "G", cols: vec!["id", "cid"], defaults: vec![N, N] },
        ],
        fks: vec![
            Fk { child: "C", cols: vec![0], parent: "P", pcols: vec![0], on_delete: Act::Cascade, on_update: Act::Cascade },
            Fk { child: "G", cols: vec![1], parent: "C", pcols: vec![0], on_delete: Act::Cascade, on_update: gu },
        ],
    };
    let ops = vec![
        ins("P", &[&[s(1)], &[s(2)]]),
        ins("C", &[&[s(1), s(0)]]),
        ins("C", &[&[s(2), s(0)]]),
        ins("G", &[&[s(1), s(1)]]),
        ins("G", &[&[s(2), s(2)]]),
        ins("G", &[&[s(3), s(9)]]),
        upd("P", Pred::Eq(0, 1), 0, SetExpr::Const(s(5))),
        upd("P", Pred::NoWhere, 0, SetExpr::Add(10)),
        upd("C", Pred::Eq(0, 1), 0, SetExpr::Const(s(2))),
        del("P", Pred::Eq(0, 1)),
        del("P", Pred::NoWhere),
        del("C", Pred::Eq(0, 2)),
    ];
    Cfg {
        name: format!("pkfk/table/g:{}", gu.label()),
        family: "pkfk",
        form: "table",
        on_delete: "CASCADE,CASCADE".into(),
        on_update: format!("CASCADE,{}", gu.label()),
        prelude: vec![
            "CREATE TABLE p (id INT PRIMARY KEY)".into(),
            "CREATE TABLE c (pid INT PRIMARY KEY, w INT, FOREIGN KEY (pid) REFERENCES p (id) ON DELETE CASCADE ON UPDATE CASCADE)".into(),
            format!("CREATE TABLE g (id INT PRIMARY KEY, cid INT, FOREIGN KEY (cid) REFERENCES c (pid) ON DELETE CASCADE{})", act_clause(Act::NoAction, gu)),
        ],
        schema,
        ops,
    }
}

/// chain through a UNIQUE *non-key* column: p(id) ← c(id PK, pid UNIQUE) ← g(cpid → c.pid); an update of
/// p.id cascades into c.pid, which is itself a referenced key (but not c's primary key)
fn uniqchain_cfg(gu: Act) -> Cfg {
    let schema = Schema {
        tables: vec![
            TableDecl { name: "P", cols: vec!["id"], defaults: vec![N] },
            TableDecl { name: "C", cols: vec!["id", "pid"], defaults: vec![N, N] },
            TableDecl { name: "G", cols: vec!["id", "cpid"], defaults: vec![N, N] },
        ],
        fks: vec![
            Fk { child: "C", cols: vec![1], parent: "P", pcols: vec![0], on_delete: Act::Cascade, on_update: Act::Cascade },
            Fk { child: "G", cols: vec![1], parent: "C", pcols: vec![1], on_delete: Act::Cascade, on_update: gu },
        ],
    };
    let ops = vec![
        ins("P", &[&[s(1)], &[s(2)]]),
        ins("C", &[&[s(10), s(1)]]),
        ins("C", &[&[s(20), s(2)]]),
        ins("G", &[&[s(1), s(1)]]),
        ins("G", &[&[s(2), s(2)]]),
        ins("G", &[&[s(3), s(9)]]),
        upd("P", Pred::Eq(0, 1), 0, SetExpr::Const(s(7))),
        upd("P", Pred::NoWhere, 0, SetExpr::Add(10)),
        upd("C", Pred::Eq(0, 10), 1, SetExpr::Const(s(2))),
        del("P", Pred::Eq(0, 1)),
        del("P", Pred::NoWhere),
        del("C", Pred::Eq(0, 20)),
    ];
    Cfg {
        name: format!("uniqchain/table/g:{}", gu.label()),
        family: "uniqchain",
        form: "table",
        on_delete: "CASCADE,CASCADE".into(),
        on_update: format!("CASCADE,{}", gu.label()),
        prelude: vec![
            "CREATE TABLE p (id INT PRIMARY KEY)".into(),
            "CREATE TABLE c (id INT PRIMARY KEY, pid INT UNIQUE, FOREIGN KEY (pid) REFERENCES p (id) ON DELETE CASCADE ON UPDATE CASCADE)".into(),
            format!("CREATE TABLE g (id INT PRIMARY KEY, cpid INT, FOREIGN KEY (cpid) REFERENCES c (pid) ON DELETE CASCADE{})", act_clause(Act::NoAction, gu)),
        ],
        schema,
        ops,
    }
}

/// composite key p2(a,b) ← c(x,y); a NULL component switches the check off (MATCH SIMPLE)
fn comp_cfg(od: Act, ou: Act) -> Cfg {
    let schema = Schema {
        tables: vec![
            TableDecl { name: "P2", cols: vec!["a", "b"], defaults: vec![N, N] },
            TableDecl { name: "C", cols: vec!["id", "x", "y"], defaults: vec![N, N, N] },
        ],
        fks: vec![Fk { child: "C", cols: vec![1, 2], parent: "P2", pcols: vec![0, 1], on_delete: od, on_update: ou }],
    };
    let ops = vec![
        ins("P2", &[&[s(1), s(1)]]),
        ins("P2", &[&[s(1), s(2)]]),
        ins("P2", &[&[s(2), s(1)]]),
        ins("C", &[&[s(1), s(1), s(1)]]),
        ins("C", &[&[s(2), s(1), s(2)]]),
        ins("C", &[&[s(3), s(2), s(2)]]),
        ins("C", &[&[s(4), s(9), N]]),
        del("P2", Pred::Eq(0, 1)),
        del("P2", Pred::Eq(1, 1)),
        del("P2", Pred::NoWhere),
        upd("P2", Pred::Eq(1, 1), 1, SetExpr::Const(s(3))),
        upd("P2", Pred::NoWhere, 0, SetExpr::Add(1)),
        upd("C", Pred::Eq(0, 1), 2, SetExpr::Const(s(2))),
        upd("C", Pred::Eq(0, 1), 2, SetExpr::Const(s(7))),
        upd("C", Pred::Eq(0, 1), 1, SetExpr::Const(N)),
    ];
    Cfg {
        name: format!("comp/table/{}/{}", od.label(), ou.label()),
        family: "comp",
        form: "table",
        on_delete: od.label().into(),
        on_update: ou.label().into(),
        prelude: vec![
            "CREATE TABLE p2 (a INT, b INT, PRIMARY KEY (a, b))".into(),
            format!("CREATE TABLE c (id INT PRIMARY KEY, x INT, y INT, FOREIGN KEY (x, y) REFERENCES p2 (a, b){})", act_clause(od, ou)),
        ],
        schema,
        ops,
    }
}

/// INSERT … SELECT into a child (bulk-transfer row loop and the normal path)
fn bulk_cfg() -> Cfg {
    let schema = Schema {
        tables: vec![
            TableDecl { name: "P", cols: vec!["id"], defaults: vec![N] },
            TableDecl { name: "C", cols: vec!["id", "pid"], defaults: vec![N, N] },
            TableDecl { name: "S", cols: vec!["id", "pid"], defaults: vec![N, N] },
        ],
        fks: vec![Fk { child: "C", cols: vec![1], parent: "P", pcols: vec![0], on_delete: Act::NoAction, on_update: Act::NoAction }],
    };
    let ops = vec![
        ins("P", &[&[s(1)]]),
        ins("P", &[&[s(2)]]),
        ins("S", &[&[s(1), s(1)]]),
        ins("S", &[&[s(2), s(2)]]),
        ins("S", &[&[s(3), s(9)]]),
        ins("S", &[&[s(4), N]]),
        del("S", Pred::NoWhere),
        del("C", Pred::NoWhere),
        del("P", Pred::Eq(0, 2)),
        Op::InsertSelect { table: "C", from: "S", column_list: false },
        Op::InsertSelect { table: "C", from: "S", column_list: true },
    ];
    Cfg {
        name: "bulk/table/NO ACTION/NO ACTION".into(),
        family: "bulk",
        form: "table",
        on_delete: "NO ACTION".into(),
        on_update: "NO ACTION".into(),
        prelude: vec![
            "CREATE TABLE p (id INT PRIMARY KEY)".into(),
            "CREATE TABLE c (id INT PRIMARY KEY, pid INT, FOREIGN KEY (pid) REFERENCES p (id))".into(),
            "CREATE TABLE s (id INT NOT NULL, pid INT)".into(),
        ],
        schema,
        ops,
    }
}

pub fn configs(thorough: bool) -> Vec<Cfg> {
    let mut v = vec![];
    // the delete path reads only ON DELETE, the update path only ON UPDATE: the quick tier takes the
    // five "diagonal" pairs (every action on both sides once), the thorough tier all 25 pairs
    for od in Act::ALL {
        for ou in Act::ALL {
            // RESTRICT shares its code with NO ACTION and has no keyword in the parser: thorough only
            if thorough || (od == ou && od != Act::Restrict) {
                v.push(pc_cfg("table", od, ou, thorough));
            }
        }
    }
    // column-constraint form (the other parser path)
    v.push(pc_cfg("column", Act::Cascade, Act::Cascade, thorough));
    if thorough {
        v.push(pc_cfg("column", Act::NoAction, Act::NoAction, thorough));
        v.push(pc_cfg("column", Act::SetNull, Act::SetNull, thorough));
        v.push(pc_cfg("column", Act::SetDefault, Act::SetDefault, thorough));
        v.push(pc_cfg("column", Act::Restrict, Act::Restrict, thorough));
    }
    for (od, ou) in [(Act::Cascade, Act::Cascade), (Act::SetNull, Act::SetNull), (Act::NoAction, Act::NoAction)] {
        v.push(self_cfg(od, ou));
    }
    v.push(chain_cfg(Act::Cascade));
    v.push(chain_cfg(Act::NoAction));
    if thorough {
        v.push(chain_cfg(Act::SetNull));
    }
    for first in [true, false] {
        v.push(two_cfg(first, Act::NoAction));
        if thorough {
            v.push(two_cfg(first, Act::Restrict));
            v.push(two_cfg(first, Act::SetNull));
        }
    }
    v.push(uniq_cfg(Act::NoAction, Act::NoAction));
    v.push(uniq_cfg(Act::Cascade, Act::Cascade));
    if thorough {
        v.push(uniq_cfg(Act::SetNull, Act::SetNull));
        v.push(uniq_cfg(Act::SetDefault, Act::SetDefault));
    }
    for gu in [Act::Cascade, Act::NoAction] {
        v.push(pkfk_cfg(gu));
    }
    v.push(uniqchain_cfg(Act::Cascade));
    if thorough {
        v.push(uniqchain_cfg(Act::NoAction));
        v.push(uniqchain_cfg(Act::SetNull));
    }
    v.push(comp_cfg(Act::Cascade, Act::Cascade));
    v.push(comp_cfg(Act::SetNull, Act::SetNull));
    if thorough {
        v.push(comp_cfg(Act::NoAction, Act::NoAction));
        v.push(comp_cfg(Act::SetDefault, Act::SetDefault));
    }
    v.push(bulk_cfg());
    v
}

#[derive(Debug, Clone, PartialEq)]
pub struct Verdict {
    pub kind: &'static str,
    pub what: String,
    /// the post-state is inconsistent: do not explore from it
    pub prune: bool,
}

#[derive(Default)]
pub struct Counters {
    pub m: Mutex<BTreeMap<String, u64>>,
}
impl Counters {
    fn add(&self, k: String, n: u64) {
        *self.m.lock().unwrap().entry(k).or_insert(0) += n;
    }
}

/// Judge one transition. Err(_) = the harness could not read the state (machinery).
pub fn judge(cfg: &Cfg, pre: &Database, op: &Op, post: &Database, out: &Out, cnt: Option<&Counters>) -> Result<Option<Verdict>, String> {
    let sql = op.sql(&cfg.schema);
    if let Out::Panic(m) = out {
        return Ok(Some(Verdict { kind: "panic", what: format!("`{}` panicked: {}", sql, m), prune: true }));
    }
    let pre_t = sx::read_schema_tables(pre, &cfg.schema)?;
    let post_t = sx::read_schema_tables(post, &cfg.schema)?;
    let exp = model::expect(&cfg.schema, &pre_t, op);
    let dang = model::dangling(&cfg.schema, &post_t);
    if let Some(c) = cnt {
        let shape = op.shape(&cfg.schema);
        let cls = format!(
            "{}|{}|{}|{}",
            shape,
            out.class(),
            if exp.must_reject.is_some() { "model:reject" } else { "model:apply" },
            if exp.action_rows > 0 { "actions" } else { "no-actions" }
        );
        c.add(format!("class:{}", cls), 1);
        if exp.action_rows > 0 && exp.must_reject.is_none() && out.is_ok() {
            for fk in &cfg.schema.fks {
                let a = match op {
                    Op::Delete { .. } => fk.on_delete,
                    _ => fk.on_update,
                };
                if fk.parent == op.table() {
                    c.add(format!("action_applied:{}:{}", if matches!(op, Op::Delete { .. }) { "delete" } else { "update" }, a.label()), 1);
                }
            }
        }
        if exp.must_reject.is_some() {
            c.add(format!("must_reject:{}", if out.is_ok() { "ACCEPTED" } else { "rejected" }), 1);
        } else if !out.is_ok() {
            c.add("false_rejection(not a violation)".into(), 1);
        }
    }
    if !dang.is_empty() {
        let kind = if out.is_ok() { "orphan" } else { "orphan_after_rejected_statement" };
        return Ok(Some(Verdict {
            kind,
            what: format!(
                "after `{}` ({}) {} — before: {} after: {}",
                sql,
                out.brief(),
                dang[0],
                model::fmt_tables(&pre_t),
                model::fmt_tables(&post_t)
            ),
            prune: true,
        }));
    }
    if out.is_ok() {
        if let Some(why) = &exp.must_reject {
            // consistent state, but not by the declared action (e.g. children removed under NO ACTION)
            return Ok(Some(Verdict {
                kind: "action_mismatch",
                what: format!(
                    "`{}` was accepted although the declared actions leave {}; before: {} after: {}",
                    sql,
                    why,
                    model::fmt_tables(&pre_t),
                    model::fmt_tables(&post_t)
                ),
                prune: false,
            }));
        }
        if exp.undefined.is_none() && !model::same_tables(&exp.post, &post_t) {
            let target_only = cfg.schema.names().iter().all(|n| {
                *n == op.table() || {
                    let mut a = exp.post.get(*n).cloned().unwrap_or_default();
                    let mut b = post_t.get(*n).cloned().unwrap_or_default();
                    a.sort();
                    b.sort();
                    a == b
                }
            });
            return Ok(Some(Verdict {
                kind: if target_only { "target_rows_mismatch" } else { "action_mismatch" },
                what: format!(
                    "`{}` ({}) before: {} expected: {} got: {}",
                    sql,
                    out.brief(),
                    model::fmt_tables(&pre_t),
                    model::fmt_tables(&exp.post),
                    model::fmt_tables(&post_t)
                ),
                prune: false,
            }));
        }
    }
    Ok(None)
}

/// Re-execute a history from scratch and judge its last step.
pub fn rejudge(cfg: &Cfg, hist: &[String]) -> Result<Option<Verdict>, String> {
    let mut db = sx::fresh(&cfg.prelude)?;
    let by_sql: HashMap<String, &Op> = cfg.ops.iter().map(|o| (o.sql(&cfg.schema), o)).collect();
    let (last, init) = hist.split_last().ok_or("empty history")?;
    for h in init {
        sx::apply(&mut db, h);
    }
    let pre = db.clone();
    let out = sx::apply(&mut db, last);
    let op = by_sql.get(last).ok_or_else(|| format!("statement not in the alphabet: {}", last))?;
    judge(cfg, &pre, op, &db, &out, None)
}

struct C12Spec<'a> {
    cfg: &'a Cfg,
    alphabet: Vec<String>,
    by_sql: HashMap<String, Op>,
    cnt: &'a Counters,
    confirmed: &'a Mutex<HashSet<String>>,
    col: &'a sx::Collector,
}

thread_local! {
    /// history of the node whose alphabet is being applied (only read when tracing)
    static CUR_HIST: std::cell::RefCell<Vec<String>> = const { std::cell::RefCell::new(Vec::new()) };
}

fn sig_of(cfg: &Cfg, op: &Op, v: &Verdict) -> Vec<(&'static str, String)> {
    vec![
        ("kind", v.kind.to_string()),
        ("family", cfg.family.to_string()),
        ("form", cfg.form.to_string()),
        ("on_delete", cfg.on_delete.clone()),
        ("on_update", cfg.on_update.clone()),
        ("shape", op.shape(&cfg.schema)),
        ("stmt", op.sql(&cfg.schema)),
    ]
}

fn case_json(cfg: &Cfg, hist: &[String]) -> Value {
    let probes: Vec<String> = cfg.schema.names().iter().map(|n| format!("SELECT * FROM {}", n.to_lowercase())).collect();
    json!({"cfg": cfg.name, "prelude": cfg.prelude, "steps": hist, "probes": probes})
}

impl<'a> Spec for C12Spec<'a> {
    type M = ();
    fn init(&self) -> Vec<Node<()>> {
        vec![Node { db: sx::fresh(&self.cfg.prelude).expect("prelude checked before the search"), model: (), hist: vec![] }]
    }
    fn alphabet(&self, _db: &Database, _m: &(), h: &[String]) -> Vec<String> {
        if sx::tracing() {
            CUR_HIST.with(|c| *c.borrow_mut() = h.to_vec());
        }
        self.alphabet.clone()
    }
    fn apply(&self, db: &mut Database, op: &str) -> Out {
        if sx::tracing() {
            let mut steps = CUR_HIST.with(|c| c.borrow().clone());
            steps.push(op.to_string());
            sx::trace(&case_json(self.cfg, &steps));
        }
        sx::apply(db, op)
    }
    fn step(&self, pre: &Database, _m: &(), op_sql: &str, post: &Database, out: &Out, hist: &[String], _rep: &Report) -> Option<()> {
        let rep = self.col;
        let op = &self.by_sql[op_sql];
        match judge(self.cfg, pre, op, post, out, Some(self.cnt)) {
            Err(e) => {
                rep.machinery_error(format!("{}: {} (history {:?})", self.cfg.name, e, hist));
                None
            }
            Ok(None) => Some(()),
            Ok(Some(v)) => {
                let sig = sig_of(self.cfg, op, &v);
                let key = sig.iter().map(|(k, x)| format!("{}={}", k, x)).collect::<Vec<_>>().join(";");
                let first = self.confirmed.lock().unwrap().insert(key.clone());
                if first {
                    // re-execute from scratch before reporting (DESIGN R3): the same kind of violation
                    // must show again twice. The engine iterates over hash maps with random seeds
                    // (e.g. the order in which child tables are visited), so the text of a partial
                    // effect may differ between runs; a violation that never shows again is a
                    // machinery error, not a verdict.
                    let mut again = 0;
                    let mut last = None;
                    for _ in 0..6 {
                        let r = rejudge(self.cfg, hist);
                        if matches!(&r, Ok(Some(x)) if x.kind == v.kind) {
                            again += 1;
                            if again == 2 {
                                break;
                            }
                        }
                        last = Some(r);
                    }
                    if again < 2 {
                        self.confirmed.lock().unwrap().remove(&key);
                        rep.machinery_error(format!(
                            "{}: violation not reproduced from scratch: first {:?}, last re-execution {:?} (history {:?})",
                            self.cfg.name, v, last, hist
                        ));
                        return None;
                    }
                }
                rep.violation(&sig, v.what.clone(), case_json(self.cfg, hist));
                if v.prune {
                    None
                } else {
                    Some(())
                }
            }
        }
    }
}

fn depth_of(thorough: bool, cfg: &Cfg) -> usize {
    // history bound: the parent/child configurations have ≈ 27 statements, the special families
    // (chains, two children, self-reference, composite keys …) 11–20 and need one step more for
    // their shortest interesting histories (parent, child, grandchild, then the statement)
    match (thorough, cfg.family) {
        (true, "pc") => 5,
        (true, _) => 6,
        (false, "pc") => 3,
        (false, _) => 4,
    }
}

const GUARD_DEPTH: usize = 2;

/// Explore one configuration (worker subprocess) and print the RESULT document.
pub fn worker(tier: &str, cfg_name: &str) -> i32 {
    let thorough = tier == "thorough";
    let cfgs = configs(thorough);
    let Some(i) = cfgs.iter().position(|c| c.name == cfg_name) else {
        eprintln!("unknown configuration {}", cfg_name);
        return 2;
    };
    let cfg = &cfgs[i];
    vibesql_types::verif::reset();
    let col = sx::Collector::default();
    let cnt = Counters::default();
    let confirmed = Mutex::new(HashSet::new());
    let dummy = Report::new("C12", tier, "model_checking");
    let mut stats = json!({});
    // prelude must be accepted and alphabet entries must be distinct
    let alphabet: Vec<String> = cfg.ops.iter().map(|o| o.sql(&cfg.schema)).collect();
    let by_sql: HashMap<String, Op> = cfg.ops.iter().map(|o| (o.sql(&cfg.schema), o.clone())).collect();
    if let Err(e) = sx::fresh(&cfg.prelude) {
        col.machinery_error(e);
    } else if by_sql.len() != alphabet.len() {
        col.machinery_error("duplicate statements in the alphabet".into());
    } else {
        let spec = C12Spec { cfg, alphabet, by_sql, cnt: &cnt, confirmed: &confirmed, col: &col };
        let budget = if thorough { 1500.0 } else { 120.0 };
        // stateless guard pass (no merging): every configuration in the thorough tier, the first
        // configuration of each family in the quick tier
        let first_of_family = cfgs.iter().position(|c| c.family == cfg.family) == Some(i);
        let g = if thorough || first_of_family {
            histmc::bfs(&spec, GUARD_DEPTH, false, &dummy, &Caps { max_states: 2_000_000, max_secs: budget })
        } else {
            histmc::Stats { depth_completed: GUARD_DEPTH, ..Default::default() }
        };
        let depth = depth_of(thorough, cfg);
        let st = histmc::bfs(&spec, depth, true, &dummy, &Caps { max_states: if thorough { 1_500_000 } else { 300_000 }, max_secs: budget });
        stats = json!({
            "states": st.states, "transitions": st.transitions, "ok": st.ok_transitions, "err": st.err_transitions, "panic": st.panic_transitions,
            "depth_bound": depth, "depth_completed": st.depth_completed, "capped": st.capped || st.depth_completed < depth || g.capped,
            "guard_states": g.states, "guard_transitions": g.transitions, "guard_depth_completed": g.depth_completed,
            "alphabet": cfg.ops.len(), "sample": st.samples.last().cloned().unwrap_or_default(),
        });
    }
    let mut res = col.to_json();
    res["stats"] = stats;
    res["counters"] = json!(cnt.m.lock().unwrap().clone());
    let reach: BTreeMap<String, u64> = vibesql_types::verif::snapshot().into_iter().filter(|(_, v)| *v > 0).map(|(k, v)| (k.to_string(), v)).collect();
    res["reach"] = json!(reach);
    sx::print_result(&res);
    0
}

pub fn run(tier: &str) -> i32 {
    let mut rep = Report::new("C12", tier, "model_checking");
    let thorough = tier == "thorough";
    let cfgs = configs(thorough);
    let units: Vec<String> = cfgs.iter().map(|c| c.name.clone()).collect();
    let outcomes = sx::run_workers("C12", tier, &units, if thorough { 4 } else { 8 });
    let mut counters: BTreeMap<String, u64> = BTreeMap::new();
    let mut reach: BTreeMap<String, u64> = BTreeMap::new();
    let mut per_cfg = serde_json::Map::new();
    let mut capped = vec![];
    let mut samples: Vec<Vec<String>> = vec![];
    let (mut states, mut transitions, mut ok, mut err, mut panics, mut gstates, mut gtrans) = (0u64, 0u64, 0u64, 0u64, 0u64, 0u64, 0u64);
    let mut aborted_units = vec![];
    for o in &outcomes {
        let cfg = cfgs.iter().find(|c| c.name == o.unit).expect("unit is a configuration");
        if let Some((status, inflight)) = &o.died {
            match (&o.result, inflight) {
                (None, Some(case)) => {
                    // the engine took the process down on this history (twice): a statement that
                    // neither completes nor is rejected
                    let steps: Vec<String> = case["steps"].as_array().map(|a| a.iter().filter_map(|x| x.as_str().map(String::from)).collect()).unwrap_or_default();
                    let last = steps.last().cloned().unwrap_or_default();
                    let shape = cfg.ops.iter().find(|op| op.sql(&cfg.schema) == last).map(|op| op.shape(&cfg.schema)).unwrap_or_default();
                    rep.violation(
                        &[
                            ("kind", "process_abort".to_string()),
                            ("family", cfg.family.to_string()),
                            ("form", cfg.form.to_string()),
                            ("on_delete", cfg.on_delete.clone()),
                            ("on_update", cfg.on_update.clone()),
                            ("shape", shape),
                            ("stmt", last.clone()),
                        ],
                        format!("the engine aborted the process (worker status {}) while executing `{}` after {:?}", status, last, &steps[..steps.len().saturating_sub(1)]),
                        case.clone(),
                    );
                    aborted_units.push(o.unit.clone());
                }
                (None, None) => rep.machinery_error(format!("{}: worker died ({}) and the in-flight case could not be determined", o.unit, status)),
                (Some(_), _) => rep.machinery_error(format!("{}: worker died once ({}), the single-threaded re-run completed", o.unit, status)),
            }
        }
        let Some(res) = &o.result else { continue };
        sx::merge_into(&rep, &o.unit, res);
        let st = &res["stats"];
        let u = |k: &str| st[k].as_u64().unwrap_or(0);
        states += u("states");
        transitions += u("transitions");
        ok += u("ok");
        err += u("err");
        panics += u("panic");
        gstates += u("guard_states");
        gtrans += u("guard_transitions");
        if st["capped"].as_bool().unwrap_or(true) {
            capped.push(json!({"cfg": o.unit, "depth_completed": st["depth_completed"], "guard_depth_completed": st["guard_depth_completed"]}));
        }
        per_cfg.insert(
            o.unit.clone(),
            json!({"states": u("states"), "transitions": u("transitions"), "depth_bound": st["depth_bound"], "depth_completed": st["depth_completed"], "ok": u("ok"), "err": u("err"), "alphabet": st["alphabet"]}),
        );
        if samples.len() < 6 {
            if let Some(sm) = st["sample"].as_array() {
                if !sm.is_empty() {
                    let mut x = vec![format!("[{}]", o.unit)];
                    x.extend(sm.iter().filter_map(|v| v.as_str().map(String::from)));
                    samples.push(x);
                }
            }
        }
        for (k, v) in res["counters"].as_object().cloned().unwrap_or_default() {
            *counters.entry(k).or_insert(0) += v.as_u64().unwrap_or(0);
        }
        for (k, v) in res["reach"].as_object().cloned().unwrap_or_default() {
            *reach.entry(k).or_insert(0) += v.as_u64().unwrap_or(0);
        }
    }
    if samples.is_empty() {
        samples.push(vec!["<no configuration completed>".to_string()]);
    }
    rep.set("states", json!(states));
    rep.set("transitions", json!(transitions));
    rep.set("transition_outcomes", json!({"ok": ok, "err": err, "panic": panics}));
    rep.set("stateless_guard_states", json!(gstates));
    rep.set("stateless_guard_transitions", json!(gtrans));
    rep.set("depth_bound", json!(if thorough { "5 (parent/child configurations), 6 (other families)" } else { "3 (parent/child configurations), 4 (other families)" }));
    rep.set("stateless_guard_depth", json!(GUARD_DEPTH));
    rep.set("configurations", json!(cfgs.len()));
    rep.set("per_configuration", Value::Object(per_cfg));
    rep.set("capped_configurations", json!(capped));
    rep.set("aborted_configurations", json!(aborted_units));
    rep.set("exhaustive", json!(capped.is_empty() && aborted_units.is_empty()));
    rep.set("samples", json!(samples));
    let classes = counters.keys().filter(|k| k.starts_with("class:")).count();
    rep.set("distinct_outcome_classes", json!(classes));
    rep.set("counters", json!(counters));
    let expected_actions = [
        "action_applied:delete:CASCADE",
        "action_applied:delete:SET NULL",
        "action_applied:delete:SET DEFAULT",
        "action_applied:update:CASCADE",
        "action_applied:update:SET NULL",
        "action_applied:update:SET DEFAULT",
        "must_reject:rejected",
    ];
    let vac: Vec<&str> = expected_actions.iter().filter(|k| counters.get(**k).copied().unwrap_or(0) == 0).copied().collect();
    rep.set("vacuous_mechanisms", json!(vac));
    rep.set(
        "rule",
        json!("per configuration (schema family × declaration form × ON DELETE/ON UPDATE pair), each in its own worker process: BFS over all statement histories of the alphabet on the real Database, states merged on the canonical whole-value fingerprint, plus a stateless pass to depth 2; in every transition (1) every non-NULL foreign key of the declared constraints has a parent row (recomputed from scans), (2) an accepted statement's effect on all tables equals the reference model's (referential actions, end-of-statement semantics), (3) a statement the model must reject (it leaves a dangling key) is not accepted; states with dangling keys are reported and not expanded; a history on which the engine aborts the process is reported"),
    );
    rep.set("reach", json!(reach));
    rep.assume("equal canonical Debug fingerprints imply equal futures (vcore::fp)");
    rep.assume("the reference model is lenient: RESTRICT is treated like NO ACTION (end-of-statement check), rows of one batch may reference each other, a rejection by the engine is always acceptable");
    println!(
        "C12 {}: {} configurations, {} states, {} transitions (ok {}, err {}), {} outcome classes, capped: {}, aborted: {}",
        tier,
        cfgs.len(),
        states,
        transitions,
        ok,
        err,
        classes,
        capped.len(),
        aborted_units.len()
    );
    rep.finish()
}

pub fn replay(case: &Value) -> i32 {
    let name = case["cfg"].as_str().unwrap_or("");
    let cfgs = configs(true);
    let Some(cfg) = cfgs.iter().find(|c| c.name == name).or_else(|| None) else {
        eprintln!("unknown configuration {}", name);
        return 2;
    };
    // the quick tier uses a smaller alphabet of the same configuration; statements are looked up in the larger one
    let hist: Vec<String> = case["steps"].as_array().map(|a| a.iter().filter_map(|x| x.as_str().map(String::from)).collect()).unwrap_or_default();
    let mut db = match sx::fresh(&cfg.prelude) {
        Ok(d) => d,
        Err(e) => {
            eprintln!("{}", e);
            return 2;
        }
    };
    for p in &cfg.prelude {
        println!("{}", p);
    }
    for h in &hist {
        let o = sx::apply(&mut db, h);
        println!("{}\n   => {}", h, o.brief());
    }
    match sx::read_schema_tables(&db, &cfg.schema) {
        Ok(t) => println!("final tables: {}", model::fmt_tables(&t)),
        Err(e) => println!("final tables unreadable: {}", e),
    }
    match rejudge(cfg, &hist) {
        Ok(Some(v)) => {
            println!("VERDICT violation kind={} {}", v.kind, v.what);
            1
        }
        Ok(None) => {
            println!("VERDICT no violation reproduced");
            0
        }
        Err(e) => {
            eprintln!("{}", e);
            2
        }
    }
}

#[cfg(test)]
mod tests {
    //! Witnesses of the findings that were repaired in /repo (DESIGN R7): each must be quiet now.
    use super::*;

    fn quiet(cfg_name: &str, steps: &[&str]) {
        let cfgs = configs(true);
        let cfg = cfgs.iter().find(|c| c.name == cfg_name).expect("configuration");
        let hist: Vec<String> = steps.iter().map(|s| s.to_string()).collect();
        let v = rejudge(cfg, &hist).expect("harness");
        assert!(v.is_none(), "{:?}", v);
    }

    #[test]
    fn column_level_references_is_enforced() {
        quiet("pc/column/NO ACTION/NO ACTION", &["INSERT INTO c VALUES (4, 9)"]);
    }

    #[test]
    fn unique_non_key_parent_column() {
        quiet("uniq/table/NO ACTION/NO ACTION", &["INSERT INTO p VALUES (1, 10)", "INSERT INTO c VALUES (1, 10)", "DELETE FROM p WHERE id = 1"]);
        quiet("uniq/table/CASCADE/CASCADE", &["INSERT INTO p VALUES (1, 10)", "INSERT INTO c VALUES (1, 10)", "UPDATE p SET v = 11 WHERE id = 1"]);
    }

    #[test]
    fn unchanged_key_triggers_no_action() {
        quiet("pc/table/SET NULL/SET NULL", &["INSERT INTO p VALUES (1, 10)", "INSERT INTO c VALUES (1, 1)", "UPDATE p SET id = 1 WHERE id = 1"]);
    }

    #[test]
    fn set_default_needs_a_parent() {
        quiet("pc/table/SET DEFAULT/SET DEFAULT", &["INSERT INTO p VALUES (1, 10)", "INSERT INTO c VALUES (1, 1)", "DELETE FROM p WHERE id = 1"]);
    }

    #[test]
    fn self_reference_key_shift() {
        quiet("self/alter/CASCADE/CASCADE", &["INSERT INTO e VALUES (1, NULL)", "INSERT INTO e VALUES (2, 1)", "UPDATE e SET id = id + 10"]);
    }

    #[test]
    fn cascaded_key_is_followed() {
        quiet(
            "pkfk/table/g:CASCADE",
            &["INSERT INTO p VALUES (1), (2)", "INSERT INTO c VALUES (1, 0)", "INSERT INTO g VALUES (1, 1)", "UPDATE p SET id = 5 WHERE id = 1"],
        );
    }
}
