//! C11 — a DML statement that returns an error leaves the observable database state unchanged;
//! a successful multi-row statement applies all of its rows (DESIGN §5 C11).
//!
//! Space: for every *scenario* (schema + constraint/trigger/foreign-key furniture) every state
//! reachable in ≤ D steps of the scenario's set-up alphabet (explicit-state search, states merged on
//! the canonical whole-value fingerprint) × two contexts (autocommit; inside BEGIN + SAVEPOINT) ×
//! every *case* of the scenario's statement menu. The menu enumerates, for every statement shape and
//! every fault class the executors distinguish, the position k (1 ≤ k ≤ n ≤ 3) of the row at which the
//! statement fails. A case may carry preparation statements (loading the rows that put the fault at
//! position k); the pre-state is observed after them.
//!
//! Oracle: if the statement returns Err (or panics), `obs_state` (tables as bags, catalog, user-index
//! definitions, probe battery through the indexes) and the outcome of a menu of follow-up statement sequences on clones
//! (`future`) are the same before and after. (Shortcut: equal canonical whole-value text ⇒ equal.)
//! If it returns Ok(n) and the reference model can express the statement: n and the target table's
//! contents equal the model's (all rows applied).

use std::collections::{BTreeMap, HashSet};
use std::sync::Mutex;

use serde_json::{json, Value};
use vibesql_storage::Database;

use vcore::exec::Out;
use vcore::obs;
use vcore::report::Report;

use crate::model::{self, Act, Fk, Op, Pred, Schema, SetExpr, TableDecl};
use crate::sx::{self, strs};

pub struct Case {
    pub prep: Vec<String>,
    pub stmt: String,
    pub op: Option<Op>,
    /// statement shape
    pub kind: &'static str,
    /// intended fault class
    pub fault: &'static str,
    pub n: usize,
    pub k: usize,
}

pub struct Scenario {
    pub name: String,
    pub prelude: Vec<String>,
    pub schema: Schema,
    pub setup: Vec<String>,
    pub cases: Vec<Case>,
    pub future: Vec<Vec<String>>,
}

const N: Option<i64> = None;
fn s(i: i64) -> Option<i64> {
    Some(i)
}

fn rows_sql(rows: &[Vec<Option<i64>>]) -> String {
    rows.iter()
        .map(|r| format!("({})", r.iter().map(|v| v.map(|i| i.to_string()).unwrap_or("NULL".into())).collect::<Vec<_>>().join(", ")))
        .collect::<Vec<_>>()
        .join(", ")
}

fn one(x: &str) -> Vec<String> {
    vec![x.to_string()]
}

// ------------------------------------------------------------------------------------------------
// scenario A: declared constraints (PK, UNIQUE, NOT NULL, CHECK, unique index, composite PK)
// ------------------------------------------------------------------------------------------------

fn cons_schema() -> Schema {
    Schema {
        tables: vec![
            TableDecl { name: "D", cols: vec!["id", "v", "w"], defaults: vec![N, N, N] },
            TableDecl { name: "D2", cols: vec!["a", "b"], defaults: vec![N, N] },
            TableDecl { name: "E", cols: vec!["id", "v"], defaults: vec![N, N] },
            TableDecl { name: "S", cols: vec!["id", "v", "w"], defaults: vec![N, N, N] },
            TableDecl { name: "S2", cols: vec!["a", "b"], defaults: vec![N, N] },
            TableDecl { name: "SE", cols: vec!["id", "v"], defaults: vec![N, N] },
        ],
        fks: vec![],
    }
}

/// n rows for d, all fresh and valid, except that row k (1-based) carries the fault
fn d_rows(n: usize, k: usize, fault: &str) -> Option<Vec<Vec<Option<i64>>>> {
    let mut rows = vec![];
    for i in 1..=n {
        let i64i = i as i64;
        let good = vec![s(10 + i64i), s(100 + i64i), s(0)];
        if i != k {
            rows.push(good);
            continue;
        }
        let bad = match fault {
            "pk_dup_existing" => vec![s(1), s(100 + i64i), s(0)],
            "pk_dup_batch" => {
                if k < 2 {
                    return None;
                }
                vec![s(11), s(100 + i64i), s(0)]
            }
            "unique_dup_existing" => vec![s(10 + i64i), s(10), s(0)],
            "unique_dup_batch" => {
                if k < 2 {
                    return None;
                }
                vec![s(10 + i64i), s(101), s(0)]
            }
            "not_null" => vec![s(10 + i64i), s(100 + i64i), N],
            "check" => vec![s(10 + i64i), s(100 + i64i), s(100)],
            "null_pk" => vec![N, s(100 + i64i), s(0)],
            "none" => good,
            _ => return None,
        };
        rows.push(bad);
    }
    Some(rows)
}

fn cons_scenario(thorough: bool) -> Scenario {
    let prelude = strs(&[
        "CREATE TABLE d (id INT PRIMARY KEY, v INT UNIQUE, w INT NOT NULL CHECK (w < 100))",
        "CREATE INDEX dw ON d (w)",
        "CREATE TABLE d2 (a INT, b INT, PRIMARY KEY (a, b))",
        "CREATE TABLE e (id INT, v INT)",
        "CREATE UNIQUE INDEX ue ON e (v)",
        "CREATE TABLE s (id INT NOT NULL, v INT, w INT NOT NULL)",
        "CREATE TABLE s2 (a INT NOT NULL, b INT NOT NULL)",
        "CREATE TABLE se (id INT, v INT)",
        // a UNIQUE *prefix* index: the executor's pre-validation compares whole values, the storage
        // layer the truncated key — a collision of prefixes only is caught late, inside the batch
        "CREATE TABLE tags (id INT, name VARCHAR(20))",
        "CREATE UNIQUE INDEX tags_n3 ON tags (name(3))",
    ]);
    let setup = strs(&[
        "INSERT INTO d VALUES (1, 10, 0)",
        "INSERT INTO d VALUES (2, 20, 1)",
        "INSERT INTO d VALUES (1, 10, 0), (2, 20, 0), (3, 30, 0), (4, 40, 0)",
        "DELETE FROM d WHERE id = 1",
        "UPDATE d SET w = w + 1",
        "INSERT INTO d2 VALUES (7, 1)",
        "INSERT INTO e VALUES (1, 10)",
    ]);
    let mut cases: Vec<Case> = vec![];
    // multi-row VALUES into `tags` whose k-th row collides with an existing row by prefix only (no model
    // for strings: only "a failed statement changes nothing" is judged)
    for n in 2..=3usize {
        for k in 1..=n {
            let names = ["xyz-two", "klm-six", "pqr-ten"];
            let rows: Vec<String> = (1..=n).map(|i| format!("({}, '{}')", 10 + i, if i == k { "abc-three" } else { names[i - 1] })).collect();
            cases.push(Case {
                prep: strs(&["DELETE FROM tags", "INSERT INTO tags VALUES (1, 'abc-one')"]),
                stmt: format!("INSERT INTO tags VALUES {}", rows.join(", ")),
                op: None,
                kind: "insert_values_prefix_unique",
                fault: "unique_prefix_dup_existing",
                n,
                k,
            });
        }
    }
    let faults = ["none", "pk_dup_existing", "pk_dup_batch", "unique_dup_existing", "unique_dup_batch", "not_null", "check", "null_pk"];
    let max_n: usize = if thorough { 4 } else { 3 };
    for n in 1..=max_n {
        for k in 1..=n {
            for f in faults {
                if f == "none" && k != n {
                    continue;
                }
                let Some(rows) = d_rows(n, k, f) else { continue };
                // multi-row VALUES (batch path for n > 1, single-row path for n = 1)
                cases.push(Case {
                    prep: vec![],
                    stmt: format!("INSERT INTO d VALUES {}", rows_sql(&rows)),
                    op: Some(Op::Insert { table: "D", cols: None, rows: rows.clone() }),
                    kind: "insert_values",
                    fault: f,
                    n,
                    k: if f == "none" { 0 } else { k },
                });
                // INSERT … SELECT: the same rows as source rows (s has no constraints of its own)
                if f != "not_null" && f != "null_pk" {
                    let prep = vec!["DELETE FROM s".to_string(), format!("INSERT INTO s VALUES {}", rows_sql(&rows))];
                    cases.push(Case {
                        prep: prep.clone(),
                        stmt: "INSERT INTO d SELECT * FROM s".into(),
                        op: Some(Op::InsertSelect { table: "D", from: "S", column_list: false }),
                        kind: "insert_select_bulk",
                        fault: f,
                        n,
                        k: if f == "none" { 0 } else { k },
                    });
                    cases.push(Case {
                        prep: prep.clone(),
                        stmt: "INSERT INTO d (id, v, w) SELECT id, v, w FROM s".into(),
                        op: Some(Op::InsertSelect { table: "D", from: "S", column_list: true }),
                        kind: "insert_select_normal",
                        fault: f,
                        n,
                        k: if f == "none" { 0 } else { k },
                    });
                    if thorough {
                        cases.push(Case {
                            prep,
                            stmt: "INSERT INTO d SELECT * FROM s WHERE id > 0".into(),
                            op: None,
                            kind: "insert_select_where",
                            fault: f,
                            n,
                            k: if f == "none" { 0 } else { k },
                        });
                    }
                }
            }
            // type error / arity error in the k-th row (text only)
            let mut txt: Vec<String> = (1..=n).map(|i| format!("({}, {}, 0)", 10 + i, 100 + i)).collect();
            let keep = txt.clone();
            txt[k - 1] = format!("({}, 'x', 0)", 10 + k);
            cases.push(Case { prep: vec![], stmt: format!("INSERT INTO d VALUES {}", txt.join(", ")), op: None, kind: "insert_values", fault: "type_error", n, k });
            let mut txt = keep.clone();
            txt[k - 1] = format!("({}, {})", 10 + k, 100 + k);
            cases.push(Case { prep: vec![], stmt: format!("INSERT INTO d VALUES {}", txt.join(", ")), op: None, kind: "insert_values", fault: "arity", n, k });
            // unique index on e(v): existing key 10 / key repeated in the batch
            for f in ["uidx_dup_existing", "uidx_dup_batch"] {
                if f == "uidx_dup_batch" && k < 2 {
                    continue;
                }
                let rows: Vec<Vec<Option<i64>>> = (1..=n)
                    .map(|i| {
                        let i = i as i64;
                        if i as usize == k {
                            vec![s(10 + i), s(if f == "uidx_dup_existing" { 10 } else { 101 })]
                        } else {
                            vec![s(10 + i), s(100 + i)]
                        }
                    })
                    .collect();
                cases.push(Case {
                    prep: vec![],
                    stmt: format!("INSERT INTO e VALUES {}", rows_sql(&rows)),
                    op: Some(Op::Insert { table: "E", cols: None, rows: rows.clone() }),
                    kind: "insert_values_uidx",
                    fault: f,
                    n,
                    k,
                });
                cases.push(Case {
                    prep: vec!["DELETE FROM se".into(), format!("INSERT INTO se VALUES {}", rows_sql(&rows))],
                    stmt: "INSERT INTO e SELECT * FROM se".into(),
                    op: Some(Op::InsertSelect { table: "E", from: "SE", column_list: false }),
                    kind: "insert_select_bulk_uidx",
                    fault: f,
                    n,
                    k,
                });
            }
            // composite primary key d2(a,b): existing (7,1) / repeated in the batch / NULL component
            for f in ["pk_dup_existing", "pk_dup_batch", "null_pk"] {
                if f == "pk_dup_batch" && k < 2 {
                    continue;
                }
                let rows: Vec<Vec<Option<i64>>> = (1..=n)
                    .map(|i| {
                        let i = i as i64;
                        if i as usize == k {
                            match f {
                                "pk_dup_existing" => vec![s(7), s(1)],
                                "pk_dup_batch" => vec![s(7), s(11)],
                                _ => vec![s(7), N],
                            }
                        } else {
                            vec![s(7), s(10 + i)]
                        }
                    })
                    .collect();
                cases.push(Case {
                    prep: vec![],
                    stmt: format!("INSERT INTO d2 VALUES {}", rows_sql(&rows)),
                    op: Some(Op::Insert { table: "D2", cols: None, rows: rows.clone() }),
                    kind: "insert_values_composite",
                    fault: f,
                    n,
                    k,
                });
                if f != "null_pk" {
                    cases.push(Case {
                        prep: vec!["DELETE FROM s2".into(), format!("INSERT INTO s2 VALUES {}", rows_sql(&rows))],
                        stmt: "INSERT INTO d2 SELECT * FROM s2".into(),
                        op: Some(Op::InsertSelect { table: "D2", from: "S2", column_list: false }),
                        kind: "insert_select_bulk_composite",
                        fault: f,
                        n,
                        k,
                    });
                }
            }
            // UPDATE whose k-th affected row violates (d reloaded with n rows + one bystander row 0)
            let load = |rows: Vec<Vec<Option<i64>>>| -> Vec<String> { vec!["DELETE FROM d".to_string(), format!("INSERT INTO d VALUES {}", rows_sql(&rows))] };
            let base = |special: &dyn Fn(i64) -> Vec<Option<i64>>| -> Vec<Vec<Option<i64>>> {
                (1..=n as i64).map(|i| if i as usize == k { special(i) } else { vec![s(i), s(10 * i), s(0)] }).collect()
            };
            // CHECK at the k-th row
            cases.push(Case {
                prep: load(base(&|i| vec![s(i), s(10 * i), s(60)])),
                stmt: "UPDATE d SET w = w + 50".into(),
                op: Some(Op::Update { table: "D", pred: Pred::NoWhere, col: 2, set: SetExpr::Add(50) }),
                kind: "update",
                fault: "check",
                n,
                k,
            });
            // NOT NULL at the k-th row (w := v where v is NULL)
            cases.push(Case {
                prep: load(base(&|i| vec![s(i), N, s(0)])),
                stmt: "UPDATE d SET w = v".into(),
                op: None,
                kind: "update",
                fault: "not_null",
                n,
                k,
            });
            // UNIQUE collision of the k-th row with the bystander
            let mut rows = base(&|i| vec![s(i), s(10 * i), s(0)]);
            rows.push(vec![s(0), s(10 * k as i64 + 5), s(0)]);
            cases.push(Case {
                prep: load(rows),
                stmt: "UPDATE d SET v = v + 5 WHERE id >= 1".into(),
                op: Some(Op::Update { table: "D", pred: Pred::Ge(0, 1), col: 1, set: SetExpr::Add(5) }),
                kind: "update",
                fault: "unique_dup_existing",
                n,
                k,
            });
            // PRIMARY KEY collision of the k-th row with the bystander
            let mut rows = base(&|i| vec![s(i), s(10 * i), s(0)]);
            rows.push(vec![s(20 + k as i64), s(5), s(0)]);
            cases.push(Case {
                prep: load(rows),
                stmt: "UPDATE d SET id = id + 20 WHERE id <= 4".into(),
                op: None,
                kind: "update_key",
                fault: "pk_dup_existing",
                n,
                k,
            });
            // evaluation error / NULL at the k-th row
            cases.push(Case {
                prep: load(base(&|i| vec![s(i), s(10 * i), s(0)])),
                stmt: format!("UPDATE d SET w = 10 / (id - {})", k),
                op: None,
                kind: "update",
                fault: "eval_error",
                n,
                k,
            });
            // successful multi-row UPDATE and DELETE (all rows applied)
            if k == n {
                cases.push(Case {
                    prep: load(base(&|i| vec![s(i), s(10 * i), s(0)])),
                    stmt: "UPDATE d SET w = w + 50".into(),
                    op: Some(Op::Update { table: "D", pred: Pred::NoWhere, col: 2, set: SetExpr::Add(50) }),
                    kind: "update",
                    fault: "none",
                    n,
                    k: 0,
                });
                cases.push(Case {
                    prep: load(base(&|i| vec![s(i), s(10 * i), s(0)])),
                    stmt: "DELETE FROM d WHERE id >= 1".into(),
                    op: Some(Op::Delete { table: "D", pred: Pred::Ge(0, 1) }),
                    kind: "delete",
                    fault: "none",
                    n,
                    k: 0,
                });
                // the same with a predicate that leaves the first row alone
                cases.push(Case {
                    prep: load(base(&|i| vec![s(i), s(10 * i), s(0)])),
                    stmt: "DELETE FROM d WHERE id >= 2".into(),
                    op: Some(Op::Delete { table: "D", pred: Pred::Ge(0, 2) }),
                    kind: "delete",
                    fault: "none",
                    n,
                    k: 0,
                });
                cases.push(Case {
                    prep: load(base(&|i| vec![s(i), s(10 * i), s(0)])),
                    stmt: "UPDATE d SET w = w + 1 WHERE id >= 2".into(),
                    op: Some(Op::Update { table: "D", pred: Pred::Ge(0, 2), col: 2, set: SetExpr::Add(1) }),
                    kind: "update",
                    fault: "none",
                    n,
                    k: 0,
                });
            }
        }
        // a column that does not exist
        let txt: Vec<String> = (1..=n).map(|i| format!("({}, {}, 0)", 10 + i, 100 + i)).collect();
        cases.push(Case { prep: vec![], stmt: format!("INSERT INTO d (id, nope, w) VALUES {}", txt.join(", ")), op: None, kind: "insert_values", fault: "missing_column", n, k: 0 });
    }
    cases.push(Case { prep: vec![], stmt: "UPDATE d SET nope = 1".into(), op: None, kind: "update", fault: "missing_column", n: 0, k: 0 });
    cases.push(Case { prep: vec![], stmt: "UPDATE d SET w = 'x'".into(), op: None, kind: "update", fault: "type_error", n: 0, k: 0 });
    cases.push(Case { prep: vec![], stmt: "DELETE FROM d WHERE nope = 1".into(), op: None, kind: "delete", fault: "missing_column", n: 0, k: 0 });
    // conflict-resolving inserts work row by row
    let d12 = vec!["DELETE FROM d".to_string(), "INSERT INTO d VALUES (1, 10, 0), (2, 20, 1)".to_string()];
    cases.push(Case {
        prep: d12.clone(),
        stmt: "INSERT INTO d VALUES (11, 110, 0), (1, 50, 0) ON DUPLICATE KEY UPDATE v = 20".into(),
        op: None,
        kind: "insert_on_duplicate_key_update",
        fault: "unique_dup_in_update",
        n: 2,
        k: 2,
    });
    cases.push(Case {
        prep: d12.clone(),
        stmt: "INSERT INTO d VALUES (1, 50, 0), (11, 110, 0) ON DUPLICATE KEY UPDATE v = 20".into(),
        op: None,
        kind: "insert_on_duplicate_key_update",
        fault: "unique_dup_in_update",
        n: 2,
        k: 1,
    });
    cases.push(Case {
        prep: d12.clone(),
        stmt: "REPLACE INTO d VALUES (11, 110, 0), (12, 120, NULL)".into(),
        op: None,
        kind: "replace_values",
        fault: "not_null",
        n: 2,
        k: 2,
    });
    cases.push(Case {
        prep: d12,
        stmt: "REPLACE INTO d VALUES (1, 110, 0), (12, 120, 100)".into(),
        op: None,
        kind: "replace_values",
        fault: "check",
        n: 2,
        k: 2,
    });
    let e1 = vec!["DELETE FROM e".to_string(), "INSERT INTO e VALUES (1, 10)".to_string()];
    cases.push(Case { prep: e1.clone(), stmt: "REPLACE INTO e VALUES (5, 50), (6, 10)".into(), op: None, kind: "replace_values_uidx", fault: "uidx_dup_existing", n: 2, k: 2 });
    cases.push(Case { prep: e1, stmt: "REPLACE INTO e VALUES (5, 50), (6, 50)".into(), op: None, kind: "replace_values_uidx", fault: "uidx_dup_batch", n: 2, k: 2 });
    let future = vec![
        one("INSERT INTO d VALUES (1, 10, 0)"),
        one("INSERT INTO d VALUES (11, 101, 0)"),
        one("INSERT INTO d VALUES (12, 102, 0)"),
        one("INSERT INTO d VALUES (13, 103, 0)"),
        one("INSERT INTO d VALUES (50, 500, 50)"),
        one("INSERT INTO d VALUES (51, 10, 0)"),
        one("INSERT INTO d VALUES (52, 15, 0)"),
        one("INSERT INTO d2 VALUES (7, 11)"),
        one("INSERT INTO d2 VALUES (7, 1)"),
        one("INSERT INTO e VALUES (60, 101)"),
        one("INSERT INTO e VALUES (60, 10)"),
        one("INSERT INTO e VALUES (60, 50)"),
        one("UPDATE d SET w = w + 1"),
        one("UPDATE d SET v = 101 WHERE id = 2"),
        one("DELETE FROM d WHERE w = 0"),
        one("SELECT id FROM d WHERE w >= 0 ORDER BY w, id"),
        one("SELECT id FROM e WHERE v > 0 ORDER BY v"),
        strs(&["INSERT INTO d SELECT * FROM s", "SELECT * FROM d"]),
    ];
    Scenario { name: "cons".into(), prelude, schema: cons_schema(), setup, cases, future }
}

// ------------------------------------------------------------------------------------------------
// scenario B: foreign keys (children with CASCADE, NO ACTION, SET NULL actions on one parent)
// ------------------------------------------------------------------------------------------------

/// `by_unique`: the children reference the parent's UNIQUE non-key column `v` instead of its primary
/// key (parent-side checks that only look at the primary key, or only at statements that assign it,
/// are the classic slip), and the parent statements assign `v`.
fn fk_scenario(thorough: bool, by_unique: bool) -> Scenario {
    let pc = if by_unique { "v" } else { "id" };
    let pci: usize = if by_unique { 1 } else { 0 };
    // the referenced key value of parent i
    let key = |i: i64| -> i64 { if by_unique { 10 * i } else { i } };
    let step: i64 = if by_unique { 10 } else { 1 };
    let prelude: Vec<String> = vec![
        "CREATE TABLE p (id INT PRIMARY KEY, v INT UNIQUE)".to_string(),
        format!("CREATE TABLE c1 (id INT PRIMARY KEY, pid INT, FOREIGN KEY (pid) REFERENCES p ({}) ON DELETE CASCADE ON UPDATE CASCADE)", pc),
        "CREATE INDEX c1p ON c1 (pid)".to_string(),
        format!("CREATE TABLE c2 (id INT PRIMARY KEY, pid INT, FOREIGN KEY (pid) REFERENCES p ({}))", pc),
        format!("CREATE TABLE c3 (id INT PRIMARY KEY, pid INT, FOREIGN KEY (pid) REFERENCES p ({}) ON DELETE SET NULL ON UPDATE SET NULL)", pc),
        "CREATE TABLE sc (id INT NOT NULL, pid INT)".to_string(),
    ];
    let schema = Schema {
        tables: vec![
            TableDecl { name: "P", cols: vec!["id", "v"], defaults: vec![N, N] },
            TableDecl { name: "C1", cols: vec!["id", "pid"], defaults: vec![N, N] },
            TableDecl { name: "C2", cols: vec!["id", "pid"], defaults: vec![N, N] },
            TableDecl { name: "C3", cols: vec!["id", "pid"], defaults: vec![N, N] },
            TableDecl { name: "SC", cols: vec!["id", "pid"], defaults: vec![N, N] },
        ],
        fks: vec![
            Fk { child: "C1", cols: vec![1], parent: "P", pcols: vec![pci], on_delete: Act::Cascade, on_update: Act::Cascade },
            Fk { child: "C2", cols: vec![1], parent: "P", pcols: vec![pci], on_delete: Act::NoAction, on_update: Act::NoAction },
            Fk { child: "C3", cols: vec![1], parent: "P", pcols: vec![pci], on_delete: Act::SetNull, on_update: Act::SetNull },
        ],
    };
    let setup: Vec<String> = vec![
        "INSERT INTO p VALUES (1, 10)".to_string(),
        "INSERT INTO p VALUES (2, 20)".to_string(),
        format!("INSERT INTO c1 VALUES (1, {})", key(1)),
        format!("INSERT INTO c2 VALUES (1, {})", key(2)),
        format!("INSERT INTO c3 VALUES (1, {})", key(1)),
        format!("INSERT INTO c1 VALUES (2, {})", key(2)),
    ];
    let mut cases: Vec<Case> = vec![];
    let wipe = strs(&["DELETE FROM c1", "DELETE FROM c2", "DELETE FROM c3", "DELETE FROM p", "DELETE FROM sc"]);
    let max_n: usize = if thorough { 4 } else { 3 };
    for n in 1..=max_n {
        for k in 0..=n {
            // parents 1..n, each with a CASCADE child and a SET NULL child; the NO ACTION child hangs
            // on parent k (k = 0: no such child, the statement succeeds)
            let mut prep = wipe.clone();
            let prow: Vec<Vec<Option<i64>>> = (1..=n as i64).map(|i| vec![s(i), s(10 * i)]).collect();
            let crow: Vec<Vec<Option<i64>>> = (1..=n as i64).map(|i| vec![s(i), s(key(i))]).collect();
            prep.push(format!("INSERT INTO p VALUES {}", rows_sql(&prow)));
            prep.push(format!("INSERT INTO c1 VALUES {}", rows_sql(&crow)));
            prep.push(format!("INSERT INTO c3 VALUES {}", rows_sql(&crow)));
            if k > 0 {
                prep.push(format!("INSERT INTO c2 VALUES (1, {})", key(k as i64)));
            }
            let fault = if k == 0 { "none" } else { "fk_no_action_child" };
            cases.push(Case {
                prep: prep.clone(),
                stmt: "DELETE FROM p".into(),
                op: Some(Op::Delete { table: "P", pred: Pred::NoWhere }),
                kind: "delete_parent_nowhere",
                fault,
                n,
                k,
            });
            cases.push(Case {
                prep: prep.clone(),
                stmt: "DELETE FROM p WHERE id >= 1".into(),
                op: Some(Op::Delete { table: "P", pred: Pred::Ge(0, 1) }),
                kind: "delete_parent_range",
                fault,
                n,
                k,
            });
            cases.push(Case {
                prep: prep.clone(),
                stmt: if by_unique { "UPDATE p SET v = v + 1".into() } else { "UPDATE p SET id = id + 10".into() },
                op: Some(Op::Update { table: "P", pred: Pred::NoWhere, col: pci, set: SetExpr::Add(if by_unique { 1 } else { 10 }) }),
                kind: "update_parent_key",
                fault,
                n,
                k,
            });
            if k > 0 {
                cases.push(Case {
                    prep: prep.clone(),
                    stmt: format!("DELETE FROM p WHERE id = {}", k),
                    op: Some(Op::Delete { table: "P", pred: Pred::Eq(0, k as i64) }),
                    kind: "delete_parent_by_key",
                    fault,
                    n,
                    k,
                });
                cases.push(Case {
                    prep: prep.clone(),
                    stmt: format!("UPDATE p SET {} = 9 WHERE id = {}", pc, k),
                    op: Some(Op::Update { table: "P", pred: Pred::Eq(0, k as i64), col: pci, set: SetExpr::Const(s(9)) }),
                    kind: "update_parent_key_by_key",
                    fault,
                    n,
                    k,
                });
            }
            if k == 0 {
                continue;
            }
            // child rows whose k-th row has no parent: VALUES, bulk INSERT … SELECT, normal INSERT … SELECT
            let mut prep = wipe.clone();
            prep.push("INSERT INTO p VALUES (1, 10), (2, 20), (3, 30)".into());
            let rows: Vec<Vec<Option<i64>>> = (1..=n as i64).map(|i| vec![s(10 + i), s(if i as usize == k { 9 } else { key(1 + (i % 3)) })]).collect();
            cases.push(Case {
                prep: prep.clone(),
                stmt: format!("INSERT INTO c2 VALUES {}", rows_sql(&rows)),
                op: Some(Op::Insert { table: "C2", cols: None, rows: rows.clone() }),
                kind: "insert_child_values",
                fault: "fk_orphan",
                n,
                k,
            });
            let mut prep2 = prep.clone();
            prep2.push(format!("INSERT INTO sc VALUES {}", rows_sql(&rows)));
            cases.push(Case {
                prep: prep2.clone(),
                stmt: "INSERT INTO c2 SELECT * FROM sc".into(),
                op: Some(Op::InsertSelect { table: "C2", from: "SC", column_list: false }),
                kind: "insert_child_select_bulk",
                fault: "fk_orphan",
                n,
                k,
            });
            cases.push(Case {
                prep: prep2,
                stmt: "INSERT INTO c2 (id, pid) SELECT id, pid FROM sc".into(),
                op: Some(Op::InsertSelect { table: "C2", from: "SC", column_list: true }),
                kind: "insert_child_select_normal",
                fault: "fk_orphan",
                n,
                k,
            });
            // UPDATE of the child: the k-th row moves to a missing parent (3 + 1)
            let rows: Vec<Vec<Option<i64>>> = (1..=n as i64).map(|i| vec![s(i), s(if i as usize == k { key(3) } else { key(1 + (i % 2)) })]).collect();
            let mut prep3 = prep.clone();
            prep3.push(format!("INSERT INTO c2 VALUES {}", rows_sql(&rows)));
            cases.push(Case {
                prep: prep3,
                stmt: format!("UPDATE c2 SET pid = pid + {}", step),
                op: Some(Op::Update { table: "C2", pred: Pred::NoWhere, col: 1, set: SetExpr::Add(step) }),
                kind: "update_child_fk",
                fault: "fk_orphan",
                n,
                k,
            });
        }
    }
    // statements on whatever the set-up alphabet built
    for (stmt, kind) in [
        ("DELETE FROM p WHERE id = 1".to_string(), "delete_parent_by_key"),
        ("DELETE FROM p WHERE id = 2".to_string(), "delete_parent_by_key"),
        ("DELETE FROM p".to_string(), "delete_parent_nowhere"),
        ("DELETE FROM p WHERE v >= 10".to_string(), "delete_parent_range"),
        (if by_unique { "UPDATE p SET v = v + 1".to_string() } else { "UPDATE p SET id = id + 10".to_string() }, "update_parent_key"),
        (format!("UPDATE p SET {} = 7 WHERE id = 2", pc), "update_parent_key_by_key"),
        ("TRUNCATE TABLE p".to_string(), "truncate_parent"),
        (format!("INSERT INTO c2 VALUES (5, {}), (6, 9)", key(1)), "insert_child_values"),
        ("UPDATE c1 SET pid = 9".to_string(), "update_child_fk"),
    ] {
        cases.push(Case { prep: vec![], stmt, op: None, kind, fault: "state_dependent", n: 0, k: 0 });
    }
    let future = vec![
        vec![format!("INSERT INTO c1 VALUES (20, {})", key(1))],
        vec![format!("INSERT INTO c1 VALUES (20, {})", key(2))],
        vec![format!("INSERT INTO c1 VALUES (20, {})", key(3))],
        one("INSERT INTO c1 VALUES (20, 11)"),
        one("INSERT INTO c1 VALUES (1, NULL)"),
        one("INSERT INTO c2 VALUES (1, NULL)"),
        one("INSERT INTO c3 VALUES (1, NULL)"),
        one("INSERT INTO p VALUES (1, 99)"),
        one("INSERT INTO p VALUES (11, 98)"),
        one("DELETE FROM p WHERE id = 1"),
        one("DELETE FROM p WHERE id = 11"),
        vec![format!("SELECT id FROM c1 WHERE pid = {}", key(1))],
        one("SELECT id FROM c1 WHERE pid >= 1 ORDER BY pid, id"),
    ];
    Scenario { name: if by_unique { "fkuniq".into() } else { "fk".into() }, prelude, schema, setup, cases, future }
}

// ------------------------------------------------------------------------------------------------
// scenario C: triggers that fail at the k-th row (one scenario per timing × event × granularity)
// ------------------------------------------------------------------------------------------------

fn trig_scenario(timing: &'static str, event: &'static str, gran: &'static str, thorough: bool) -> Scenario {
    let body = match (gran, event) {
        ("STATEMENT", _) => "INSERT INTO lg VALUES (0)".to_string(),
        ("ROW2", "DELETE") => "INSERT INTO lg VALUES (OLD.id + 100); INSERT INTO lg VALUES (OLD.id)".to_string(),
        ("ROW2", _) => "INSERT INTO lg VALUES (NEW.id + 100); INSERT INTO lg VALUES (NEW.id)".to_string(),
        (_, "DELETE") => "INSERT INTO lg VALUES (OLD.id)".to_string(),
        _ => "INSERT INTO lg VALUES (NEW.id)".to_string(),
    };
    let g = if gran == "STATEMENT" { "STATEMENT" } else { "ROW" };
    let prelude = vec![
        "CREATE TABLE t (id INT PRIMARY KEY, v INT)".to_string(),
        "CREATE INDEX tv ON t (v)".to_string(),
        "CREATE TABLE lg (k INT PRIMARY KEY)".to_string(),
        "CREATE TABLE st (id INT NOT NULL, v INT)".to_string(),
        format!("#TRIGGER trg {} {} {} t :: {}", timing, event, g, body),
    ];
    let schema = Schema {
        tables: vec![
            TableDecl { name: "T", cols: vec!["id", "v"], defaults: vec![N, N] },
            TableDecl { name: "LG", cols: vec!["k"], defaults: vec![N] },
            TableDecl { name: "ST", cols: vec!["id", "v"], defaults: vec![N, N] },
        ],
        fks: vec![],
    };
    let setup = strs(&["INSERT INTO t VALUES (1, 10)", "INSERT INTO t VALUES (2, 20), (3, 30)", "INSERT INTO lg VALUES (50)", "DELETE FROM t WHERE id = 1", "UPDATE t SET v = v + 1"]);
    let mut cases = vec![];
    let max_n: usize = if thorough { 4 } else { 3 };
    for n in 1..=max_n {
        for k in 0..=n {
            if gran == "STATEMENT" && k > 1 {
                continue;
            }
            // k = 0: the trigger does not fail
            let fault: &'static str = match (k, gran) {
                (0, _) => "none",
                (_, "STATEMENT") => "trigger_statement",
                (_, "ROW2") => "trigger_row_second_body_statement",
                _ => "trigger_row",
            };
            let poison = |key: i64| -> Vec<String> {
                if k == 0 {
                    vec!["DELETE FROM lg".to_string()]
                } else if gran == "STATEMENT" {
                    vec!["DELETE FROM lg".to_string(), "INSERT INTO lg VALUES (0)".to_string()]
                } else {
                    vec!["DELETE FROM lg".to_string(), format!("INSERT INTO lg VALUES ({})", key)]
                }
            };
            match event {
                "INSERT" => {
                    let rows: Vec<Vec<Option<i64>>> = (1..=n as i64).map(|i| vec![s(10 + i), s(100 + i)]).collect();
                    let prep = poison(10 + k as i64);
                    cases.push(Case {
                        prep: prep.clone(),
                        stmt: format!("INSERT INTO t VALUES {}", rows_sql(&rows)),
                        op: Some(Op::Insert { table: "T", cols: None, rows: rows.clone() }),
                        kind: "insert_values",
                        fault,
                        n,
                        k,
                    });
                    let mut p2 = vec!["DELETE FROM st".to_string(), format!("INSERT INTO st VALUES {}", rows_sql(&rows))];
                    p2.extend(prep);
                    cases.push(Case {
                        prep: p2.clone(),
                        stmt: "INSERT INTO t (id, v) SELECT id, v FROM st".into(),
                        op: Some(Op::InsertSelect { table: "T", from: "ST", column_list: true }),
                        kind: "insert_select_normal",
                        fault,
                        n,
                        k,
                    });
                    if thorough {
                        cases.push(Case {
                            prep: p2,
                            stmt: "INSERT INTO t SELECT * FROM st".into(),
                            op: Some(Op::InsertSelect { table: "T", from: "ST", column_list: false }),
                            kind: "insert_select_bulk",
                            fault,
                            n,
                            k,
                        });
                    }
                }
                _ => {
                    // reload t with rows 1..n (the reload itself may fire the trigger: lg is emptied around it)
                    let rows: Vec<Vec<Option<i64>>> = (1..=n as i64).map(|i| vec![s(i), s(10 * i)]).collect();
                    let mut prep = vec!["DELETE FROM lg".to_string(), "DELETE FROM t".to_string(), "DELETE FROM lg".to_string(), format!("INSERT INTO t VALUES {}", rows_sql(&rows))];
                    prep.extend(poison(k as i64));
                    if event == "UPDATE" {
                        cases.push(Case {
                            prep: prep.clone(),
                            stmt: "UPDATE t SET v = v + 1".into(),
                            op: Some(Op::Update { table: "T", pred: Pred::NoWhere, col: 1, set: SetExpr::Add(1) }),
                            kind: "update",
                            fault,
                            n,
                            k,
                        });
                        if k > 0 {
                            cases.push(Case {
                                prep: prep.clone(),
                                stmt: format!("UPDATE t SET v = 5 WHERE id = {}", k),
                                op: Some(Op::Update { table: "T", pred: Pred::Eq(0, k as i64), col: 1, set: SetExpr::Const(s(5)) }),
                                kind: "update_by_key",
                                fault,
                                n,
                                k,
                            });
                        }
                    } else {
                        cases.push(Case {
                            prep: prep.clone(),
                            stmt: "DELETE FROM t".into(),
                            op: Some(Op::Delete { table: "T", pred: Pred::NoWhere }),
                            kind: "delete_nowhere",
                            fault,
                            n,
                            k,
                        });
                        cases.push(Case {
                            prep: prep.clone(),
                            stmt: "DELETE FROM t WHERE id >= 1".into(),
                            op: Some(Op::Delete { table: "T", pred: Pred::Ge(0, 1) }),
                            kind: "delete_range",
                            fault,
                            n,
                            k,
                        });
                        if k > 0 {
                            cases.push(Case {
                                prep: prep.clone(),
                                stmt: format!("DELETE FROM t WHERE id = {}", k),
                                op: Some(Op::Delete { table: "T", pred: Pred::Eq(0, k as i64) }),
                                kind: "delete_by_key",
                                fault,
                                n,
                                k,
                            });
                        }
                    }
                }
            }
        }
    }
    let future = vec![
        one("INSERT INTO t VALUES (11, 1)"),
        one("INSERT INTO t VALUES (12, 1)"),
        one("INSERT INTO t VALUES (1, 1)"),
        one("INSERT INTO lg VALUES (11)"),
        one("INSERT INTO lg VALUES (1)"),
        one("INSERT INTO lg VALUES (111)"),
        one("INSERT INTO lg VALUES (0)"),
        one("SELECT id FROM t WHERE v >= 0 ORDER BY v, id"),
        one("SELECT id FROM t WHERE v = 101"),
        one("SELECT id FROM t WHERE v = 10"),
    ];
    Scenario { name: format!("trig/{}/{}/{}", timing, event, gran), prelude, schema, setup, cases, future }
}

pub fn scenarios(thorough: bool) -> Vec<Scenario> {
    let mut v = vec![cons_scenario(thorough), fk_scenario(thorough, false), fk_scenario(thorough, true)];
    for timing in ["BEFORE", "AFTER"] {
        for event in ["INSERT", "UPDATE", "DELETE"] {
            for gran in ["ROW", "STATEMENT"] {
                v.push(trig_scenario(timing, event, gran, thorough));
            }
            if thorough {
                v.push(trig_scenario(timing, event, "ROW2", thorough));
            }
        }
    }
    v
}

// ------------------------------------------------------------------------------------------------

const CONTEXTS: [&str; 2] = ["auto", "tx"];

fn ctx_prefix(ctx: &str) -> Vec<String> {
    if ctx == "tx" {
        strs(&["BEGIN", "SAVEPOINT sp"])
    } else {
        vec![]
    }
}

fn ctx_future(sc: &Scenario, ctx: &str) -> Vec<Vec<String>> {
    let mut f = sc.future.clone();
    if ctx == "tx" {
        let sel: Vec<String> = sc.schema.names().iter().map(|n| format!("SELECT * FROM {}", n.to_lowercase())).collect();
        for head in ["ROLLBACK TO SAVEPOINT sp", "ROLLBACK", "COMMIT"] {
            let mut q = vec![head.to_string()];
            q.extend(sel.clone());
            f.push(q);
        }
    }
    f
}

#[derive(Debug, Clone, PartialEq)]
pub struct Verdict {
    pub kind: &'static str,
    pub what: String,
}

#[derive(Debug, Clone, Copy, PartialEq, Eq)]
pub enum Class {
    SkippedPrep,
    ErrUnchanged,
    ErrInternalOnly,
    ErrChanged,
    OkChecked,
    OkUnchecked,
    OkWrong,
    Panic,
}

/// Evaluate one (state, context, case). `db` is the reached state (not modified).
pub fn evaluate(sc: &Scenario, db: &Database, ctx: &str, case: &Case) -> Result<(Class, Option<Verdict>), String> {
    let mut cur = db.clone();
    for p in case.prep.iter().chain(ctx_prefix(ctx).iter()) {
        let o = sx::apply(&mut cur, p);
        if !o.is_ok() {
            return Ok((Class::SkippedPrep, None));
        }
    }
    let pre = cur.clone();
    let out = sx::apply(&mut cur, &case.stmt);
    match &out {
        Out::Err(..) | Out::Panic(_) => {
            let cls_panic = out.is_panic();
            if vcore::fp::canon(&pre) == vcore::fp::canon(&cur) {
                return Ok((if cls_panic { Class::Panic } else { Class::ErrUnchanged }, None));
            }
            // tables as bags, catalog, index definitions first; the probe battery (point, range, IN,
            // IS NULL and ORDER BY queries on every column, which go through the indexes) only if
            // those agree. Row positions inside index entries are deliberately not compared: an undo
            // that puts a row back at another position keeps the property.
            let mut a = obs::obs_state_opts(&pre, false, false);
            let mut b = obs::obs_state_opts(&cur, false, false);
            if a == b {
                a = obs::obs_state_opts(&pre, false, true);
                b = obs::obs_state_opts(&cur, false, true);
            }
            if a != b {
                return Ok((
                    Class::ErrChanged,
                    Some(Verdict {
                        kind: "state_changed_by_failed_statement",
                        what: format!("`{}` failed ({}) but the observable state changed: {}", case.stmt, out.brief(), obs::first_diff(&a, &b)),
                    }),
                ));
            }
            let fm = ctx_future(sc, ctx);
            let fa = sx::future_seq(&pre, &fm);
            let fb = sx::future_seq(&cur, &fm);
            if fa != fb {
                let d = fa.iter().zip(fb.iter()).find(|(x, y)| x != y).map(|(x, y)| format!("expected `{}` got `{}`", x, y)).unwrap_or_default();
                return Ok((
                    Class::ErrChanged,
                    Some(Verdict {
                        kind: "future_changed_by_failed_statement",
                        what: format!("`{}` failed ({}) and a later statement sequence behaves differently than before it: {}", case.stmt, out.brief(), d),
                    }),
                ));
            }
            Ok((if cls_panic { Class::Panic } else { Class::ErrInternalOnly }, None))
        }
        _ => {
            let Some(op) = &case.op else { return Ok((Class::OkUnchecked, None)) };
            let pre_t = sx::read_schema_tables(&pre, &sc.schema)?;
            let post_t = sx::read_schema_tables(&cur, &sc.schema)?;
            let exp = model::expect(&sc.schema, &pre_t, op);
            if exp.undefined.is_some() || exp.must_reject.is_some() {
                return Ok((Class::OkUnchecked, None));
            }
            let t = op.table();
            let mut want = exp.post.get(t).cloned().unwrap_or_default();
            let mut got = post_t.get(t).cloned().unwrap_or_default();
            want.sort();
            got.sort();
            let n = out.count();
            if want != got || n != Some(exp.affected) {
                let mut one_t = model::Tables::new();
                one_t.insert(t.to_string(), want);
                let mut got_t = model::Tables::new();
                got_t.insert(t.to_string(), got);
                return Ok((
                    Class::OkWrong,
                    Some(Verdict {
                        kind: "successful_statement_did_not_apply_all_rows",
                        what: format!(
                            "`{}` succeeded ({}) — expected {} rows affected and {}, got {}",
                            case.stmt,
                            out.brief(),
                            exp.affected,
                            model::fmt_tables(&one_t),
                            model::fmt_tables(&got_t)
                        ),
                    }),
                ));
            }
            Ok((Class::OkChecked, None))
        }
    }
}

fn sig_of(sc: &Scenario, ctx: &str, case: &Case, v: &Verdict) -> Vec<(&'static str, String)> {
    vec![
        ("kind", v.kind.to_string()),
        ("scenario", sc.name.clone()),
        ("context", ctx.to_string()),
        ("shape", case.kind.to_string()),
        ("fault", case.fault.to_string()),
        ("n", case.n.to_string()),
        ("k", case.k.to_string()),
        ("position", (if case.k == 0 { "-" } else if case.k == 1 { "first" } else { "later" }).to_string()),
    ]
}

fn case_json(sc: &Scenario, hist: &[String], ctx: &str, case: &Case) -> Value {
    json!({"scenario": sc.name, "prelude": sc.prelude, "steps": hist, "context": ctx, "prep": case.prep, "stmt": case.stmt,
           "shape": case.kind, "fault": case.fault, "n": case.n, "k": case.k})
}

/// Re-execute a recorded case from scratch.
fn reevaluate(sc: &Scenario, hist: &[String], ctx: &str, case: &Case) -> Result<(Class, Option<Verdict>), String> {
    let mut db = sx::fresh(&sc.prelude)?;
    for h in hist {
        sx::apply(&mut db, h);
    }
    evaluate(sc, &db, ctx, case)
}

/// Evaluate one scenario (worker subprocess) and print the RESULT document.
pub fn worker(tier: &str, scenario: &str) -> i32 {
    let thorough = tier == "thorough";
    let depth = if thorough { 4 } else { 2 };
    let scs = scenarios(thorough);
    let Some(sc) = scs.iter().find(|x| x.name == scenario) else {
        eprintln!("unknown scenario {}", scenario);
        return 2;
    };
    vibesql_types::verif::reset();
    let col = sx::Collector::default();
    let confirmed: Mutex<HashSet<String>> = Mutex::new(HashSet::new());
    let mut classes: BTreeMap<String, u64> = BTreeMap::new();
    let mut outcome_classes: BTreeMap<String, u64> = BTreeMap::new();
    let mut samples: Vec<Value> = vec![];
    let mut evaluations = 0u64;
    let mut stats = json!({});
    match sx::reach(&sc.prelude, &sc.setup, depth) {
        Err(e) => col.machinery_error(e),
        Ok((states, st)) => {
            // work items: (state index, context, case index)
            let mut items: Vec<(usize, usize, usize)> = vec![];
            for si in 0..states.len() {
                for ci in 0..CONTEXTS.len() {
                    for ki in 0..sc.cases.len() {
                        items.push((si, ci, ki));
                    }
                }
            }
            let results: Vec<Result<(Class, Option<Verdict>), String>> = vcore::util::par_map(&items, |_, (si, ci, ki)| {
                let case = &sc.cases[*ki];
                let hist = &states[*si].1;
                if sx::tracing() {
                    sx::trace(&case_json(sc, hist, CONTEXTS[*ci], case));
                }
                let r = evaluate(sc, &states[*si].0, CONTEXTS[*ci], case);
                if let Ok((_, Some(v))) = &r {
                    let sig = sig_of(sc, CONTEXTS[*ci], case, v);
                    let key = sig.iter().map(|(k, x)| format!("{}={}", k, x)).collect::<Vec<_>>().join(";");
                    let first = confirmed.lock().unwrap().insert(key.clone());
                    if first {
                        // re-execute from scratch before reporting (DESIGN R3): the same kind of
                        // violation must show again twice. The engine iterates over hash maps with
                        // random seeds (e.g. the order in which child tables are visited), so *which*
                        // partial effect a failed statement leaves may differ between runs; a
                        // violation that never shows again is a machinery error, not a verdict.
                        let mut again = 0;
                        let mut last = None;
                        for _ in 0..6 {
                            let a = reevaluate(sc, hist, CONTEXTS[*ci], case);
                            if matches!(&a, Ok((_, Some(x))) if x.kind == v.kind) {
                                again += 1;
                                if again == 2 {
                                    break;
                                }
                            }
                            last = Some(a);
                        }
                        if again < 2 {
                            confirmed.lock().unwrap().remove(&key);
                            col.machinery_error(format!("violation not reproduced from scratch: {:?}, last re-execution {:?} (history {:?}, case {})", v, last, hist, case.stmt));
                            return r;
                        }
                    }
                    col.violation(&sig, v.what.clone(), case_json(sc, hist, CONTEXTS[*ci], case));
                }
                r
            });
            for ((si, ci, ki), r) in items.iter().zip(results.iter()) {
                match r {
                    Err(e) => col.machinery_error(e.clone()),
                    Ok((cls, _)) => {
                        if *cls != Class::SkippedPrep {
                            evaluations += 1;
                        }
                        let case = &sc.cases[*ki];
                        *classes.entry(format!("{:?}", cls)).or_insert(0) += 1;
                        let fam = sc.name.split('/').next().unwrap_or("");
                        let oc = format!("{}|{}|{}|k={}/{}|{:?}", fam, case.kind, case.fault, case.k, case.n, cls);
                        *outcome_classes.entry(oc).or_insert(0) += 1;
                        if samples.len() < 2 && matches!(cls, Class::ErrUnchanged | Class::ErrInternalOnly) && case.k >= 2 && (*si + *ki) % 7 == 0 {
                            samples.push(case_json(sc, &states[*si].1, CONTEXTS[*ci], case));
                        }
                    }
                }
            }
            stats = json!({"pre_states": st.states, "setup_transitions": st.transitions, "cases": sc.cases.len(), "contexts": CONTEXTS.len()});
        }
    }
    let mut res = col.to_json();
    res["stats"] = stats;
    res["evaluations"] = json!(evaluations);
    res["classes"] = json!(classes);
    res["outcome_classes"] = json!(outcome_classes);
    res["samples"] = json!(samples);
    let reach: BTreeMap<String, u64> = vibesql_types::verif::snapshot().into_iter().filter(|(_, v)| *v > 0).map(|(k, v)| (k.to_string(), v)).collect();
    res["reach"] = json!(reach);
    sx::print_result(&res);
    0
}

pub fn run(tier: &str) -> i32 {
    let mut rep = Report::new("C11", tier, "fault_enumeration");
    let thorough = tier == "thorough";
    let depth = if thorough { 4 } else { 2 };
    let scs = scenarios(thorough);
    let units: Vec<String> = scs.iter().map(|x| x.name.clone()).collect();
    let outcomes = sx::run_workers("C11", tier, &units, if thorough { 4 } else { 7 });
    let mut evaluations = 0u64;
    let mut states_total = 0u64;
    let mut transitions_total = 0u64;
    let mut classes: BTreeMap<String, u64> = BTreeMap::new();
    let mut outcome_classes: BTreeMap<String, u64> = BTreeMap::new();
    let mut reach: BTreeMap<String, u64> = BTreeMap::new();
    let mut per_scenario = serde_json::Map::new();
    let mut samples: Vec<Value> = vec![];
    let mut aborted_units = vec![];
    for o in &outcomes {
        let sc = scs.iter().find(|x| x.name == o.unit).expect("unit is a scenario");
        if let Some((status, inflight)) = &o.died {
            match (&o.result, inflight) {
                (None, Some(case)) => {
                    // the engine took the process down on this case (twice)
                    let g = |k: &str| case[k].as_str().unwrap_or("").to_string();
                    let n = case["n"].as_u64().unwrap_or(0);
                    let k = case["k"].as_u64().unwrap_or(0);
                    rep.violation(
                        &[
                            ("kind", "process_abort".to_string()),
                            ("scenario", sc.name.clone()),
                            ("context", g("context")),
                            ("shape", g("shape")),
                            ("fault", g("fault")),
                            ("n", n.to_string()),
                            ("k", k.to_string()),
                            ("position", (if k == 0 { "-" } else if k == 1 { "first" } else { "later" }).to_string()),
                        ],
                        format!("the engine aborted the process (worker status {}) while executing `{}`", status, g("stmt")),
                        case.clone(),
                    );
                    aborted_units.push(o.unit.clone());
                }
                (None, None) => rep.machinery_error(format!("{}: worker died ({}) and the in-flight case could not be determined", o.unit, status)),
                (Some(_), _) => rep.machinery_error(format!("{}: worker died once ({}), the single-threaded re-run completed", o.unit, status)),
            }
        }
        let Some(res) = &o.result else { continue };
        sx::merge_into(&rep, &o.unit, res);
        evaluations += res["evaluations"].as_u64().unwrap_or(0);
        states_total += res["stats"]["pre_states"].as_u64().unwrap_or(0);
        transitions_total += res["stats"]["setup_transitions"].as_u64().unwrap_or(0);
        for (k, v) in res["classes"].as_object().cloned().unwrap_or_default() {
            *classes.entry(k).or_insert(0) += v.as_u64().unwrap_or(0);
        }
        for (k, v) in res["outcome_classes"].as_object().cloned().unwrap_or_default() {
            *outcome_classes.entry(k).or_insert(0) += v.as_u64().unwrap_or(0);
        }
        for (k, v) in res["reach"].as_object().cloned().unwrap_or_default() {
            *reach.entry(k).or_insert(0) += v.as_u64().unwrap_or(0);
        }
        if samples.len() < 5 {
            samples.extend(res["samples"].as_array().cloned().unwrap_or_default());
        }
        let mut entry = res["stats"].clone();
        entry["classes"] = res["classes"].clone();
        per_scenario.insert(o.unit.clone(), entry);
    }
    if samples.is_empty() {
        samples.push(json!({"note": "no failing statement with k >= 2 was observed"}));
    }
    // non-vacuity: per (shape, fault) how many evaluations actually failed
    let mut failed_per_fault: BTreeMap<String, u64> = BTreeMap::new();
    for (k, n) in &outcome_classes {
        let parts: Vec<&str> = k.split('|').collect();
        if parts.len() == 5 && parts[4].starts_with("Err") {
            *failed_per_fault.entry(format!("{}|{}|{}", parts[0], parts[1], parts[2])).or_insert(0) += n;
        }
    }
    rep.set("evaluations", json!(evaluations));
    // non-trivial = the statement under test returned an error (or panicked), i.e. the before/after
    // comparison was actually exercised; every (state, context, case) triple is a distinct case
    let nontrivial: u64 = classes.iter().filter(|(k, _)| k.starts_with("Err") || k.as_str() == "Panic").map(|(_, n)| *n).sum();
    rep.set("distinct_nontrivial", json!(nontrivial));
    rep.set("distinct_outcome_classes", json!(outcome_classes.len()));
    rep.set("nontrivial_rule", json!("a (pre-state, context, case) triple is non-trivial when the statement under test returned an error or panicked, so that the before/after observation comparison was exercised; triples are distinct by construction (states are merged on their fingerprint, cases are distinct statements/preparations)"));
    rep.set("pre_states", json!(states_total));
    rep.set("setup_transitions", json!(transitions_total));
    rep.set("setup_depth", json!(depth));
    rep.set("scenarios", json!(scs.len()));
    rep.set("outcome_totals", json!(classes));
    rep.set("failed_evaluations_per_shape_and_fault", json!(failed_per_fault));
    rep.set("per_scenario", Value::Object(per_scenario));
    rep.set("aborted_scenarios", json!(aborted_units));
    rep.set("exhaustive", json!(aborted_units.is_empty()));
    rep.set("samples", json!(samples));
    rep.set(
        "rule",
        json!("for every scenario (each in its own worker process): all states reachable in ≤ D set-up steps (merged on the canonical whole-value fingerprint) × {autocommit, BEGIN+SAVEPOINT} × every case of the statement menu (statement shape × fault class × failing position k of n ≤ 3, with the preparation that puts the fault at row k); a failing statement must leave obs_state and the outcome of every follow-up probe sequence unchanged; a succeeding statement the model can express must report and apply all rows; a case on which the engine aborts the process is reported"),
    );
    rep.set("reach", json!(reach));
    println!(
        "C11 {}: {} scenarios, {} pre-states, {} evaluations ({} non-trivial), {} distinct outcome classes, totals {:?}, aborted: {}",
        tier,
        scs.len(),
        states_total,
        evaluations,
        nontrivial,
        outcome_classes.len(),
        classes,
        aborted_units.len()
    );
    rep.finish()
}

pub fn replay(case: &Value) -> i32 {
    let name = case["scenario"].as_str().unwrap_or("");
    let scs = scenarios(true);
    let Some(sc) = scs.iter().find(|x| x.name == name) else {
        eprintln!("unknown scenario {}", name);
        return 2;
    };
    let strv = |k: &str| -> Vec<String> { case[k].as_array().map(|a| a.iter().filter_map(|x| x.as_str().map(String::from)).collect()).unwrap_or_default() };
    let hist = strv("steps");
    let ctx = case["context"].as_str().unwrap_or("auto").to_string();
    let stmt = case["stmt"].as_str().unwrap_or("").to_string();
    let prep = strv("prep");
    // find the case in the menu (for the model op); fall back to an unchecked case
    let found = sc.cases.iter().find(|c| c.stmt == stmt && c.prep == prep);
    let tmp;
    let c: &Case = match found {
        Some(c) => c,
        None => {
            tmp = Case { prep: prep.clone(), stmt: stmt.clone(), op: None, kind: "replayed", fault: "replayed", n: 0, k: 0 };
            &tmp
        }
    };
    let mut db = match sx::fresh(&sc.prelude) {
        Ok(d) => d,
        Err(e) => {
            eprintln!("{}", e);
            return 2;
        }
    };
    for p in &sc.prelude {
        println!("{}", p);
    }
    for h in hist.iter().chain(prep.iter()).chain(ctx_prefix(&ctx).iter()) {
        let o = sx::apply(&mut db, h);
        println!("{}\n   => {}", h, o.brief());
    }
    let sel: Vec<String> = sc.schema.names().iter().map(|n| format!("SELECT * FROM {}", n.to_lowercase())).collect();
    println!("-- before");
    for q in &sel {
        println!("{} => {}", q, sx::apply(&mut db, q).brief());
    }
    let o = sx::apply(&mut db, &stmt);
    println!("-- statement\n{}\n   => {}", stmt, o.brief());
    println!("-- after");
    for q in &sel {
        println!("{} => {}", q, sx::apply(&mut db, q).brief());
    }
    match reevaluate(sc, &hist, &ctx, c) {
        Ok((_, Some(v))) => {
            println!("VERDICT violation kind={} {}", v.kind, v.what);
            1
        }
        Ok((cls, None)) => {
            println!("VERDICT no violation reproduced ({:?})", cls);
            0
        }
        Err(e) => {
            eprintln!("{}", e);
            2
        }
    }
}

#[cfg(test)]
mod tests {
    //! Witnesses of the findings that were repaired in /repo (DESIGN R7): each must be quiet now.
    use super::*;

    fn quiet(scenario: &str, shape: &str, fault: &str, n: usize, k: usize) {
        let scs = scenarios(true);
        let sc = scs.iter().find(|s| s.name == scenario).expect("scenario");
        let mut seen = 0;
        for case in sc.cases.iter().filter(|c| c.kind == shape && c.fault == fault && c.n == n && c.k == k) {
            for ctx in CONTEXTS {
                let (_, v) = reevaluate(sc, &[], ctx, case).expect("harness");
                assert!(v.is_none(), "{:?}", v);
                seen += 1;
            }
        }
        assert!(seen > 0);
    }

    #[test]
    fn bulk_transfer_is_all_or_nothing() {
        quiet("cons", "insert_select_bulk", "check", 3, 2);
        quiet("cons", "insert_select_bulk_uidx", "uidx_dup_batch", 3, 3);
        quiet("fk", "insert_child_select_bulk", "fk_orphan", 3, 2);
    }

    #[test]
    fn blocked_parent_statement_changes_nothing() {
        quiet("fk", "delete_parent_range", "fk_no_action_child", 3, 2);
        quiet("fk", "update_parent_key", "fk_no_action_child", 3, 3);
    }

    #[test]
    fn failing_trigger_changes_nothing() {
        quiet("trig/AFTER/INSERT/ROW", "insert_values", "trigger_row", 3, 2);
        quiet("trig/BEFORE/UPDATE/ROW", "update", "trigger_row", 3, 3);
        quiet("trig/AFTER/DELETE/STATEMENT", "delete_range", "trigger_statement", 2, 1);
    }

    #[test]
    fn conflict_resolving_insert_is_all_or_nothing() {
        quiet("cons", "insert_on_duplicate_key_update", "unique_dup_in_update", 2, 2);
        quiet("cons", "replace_values_uidx", "uidx_dup_existing", 2, 2);
    }
}
