//! Shared helpers of the fkatom checks: statement application (SQL text plus two pseudo-statements
//! that need ASTs), reading tables into the model's representation, a small reachable-state search
//! used by C11, observation helpers.

use std::collections::HashSet;

use vcore::exec::{self, ErrClass, Out};
use vcore::val;
use vibesql_ast::Statement;
use vibesql_storage::Database;

use crate::model::{Row, Schema, Tables};

/// Apply one step. Plain SQL goes through the real parser and executor. Two pseudo-statements exist
/// because the SQL text cannot express them in this engine:
/// * `#TRIGGER <name> <BEFORE|AFTER> <INSERT|UPDATE|DELETE> <ROW|STATEMENT> <table> :: <body>` —
///   trigger bodies parsed from text are stored as token dumps, so the statement is built as an AST
///   with `TriggerAction::RawSql(body)`;
/// * `#RESTRICT <d|u|du> :: <CREATE TABLE … >` — the parser has no RESTRICT keyword in referential
///   actions; the statement is parsed and the ON DELETE / ON UPDATE action of its foreign keys is set
///   to `ReferentialAction::Restrict` in the AST.
pub fn apply(db: &mut Database, op: &str) -> Out {
    if let Some(rest) = op.strip_prefix("#TRIGGER ") {
        let Some((head, body)) = rest.split_once(" :: ") else {
            return Out::Err(ErrClass::Parse, "bad #TRIGGER".into());
        };
        let w: Vec<&str> = head.split_whitespace().collect();
        if w.len() != 5 {
            return Out::Err(ErrClass::Parse, "bad #TRIGGER head".into());
        }
        let timing = match w[1] {
            "BEFORE" => vibesql_ast::TriggerTiming::Before,
            _ => vibesql_ast::TriggerTiming::After,
        };
        let event = match w[2] {
            "INSERT" => vibesql_ast::TriggerEvent::Insert,
            "UPDATE" => vibesql_ast::TriggerEvent::Update(None),
            _ => vibesql_ast::TriggerEvent::Delete,
        };
        let granularity = match w[3] {
            "ROW" => vibesql_ast::TriggerGranularity::Row,
            _ => vibesql_ast::TriggerGranularity::Statement,
        };
        let stmt = Statement::CreateTrigger(vibesql_ast::CreateTriggerStmt {
            trigger_name: w[0].to_uppercase(),
            timing,
            event,
            table_name: w[4].to_uppercase(),
            granularity,
            when_condition: None,
            triggered_action: vibesql_ast::TriggerAction::RawSql(body.to_string()),
        });
        return exec::exec_stmt(db, &stmt);
    }
    if let Some(rest) = op.strip_prefix("#RESTRICT ") {
        let Some((which, sql)) = rest.split_once(" :: ") else {
            return Out::Err(ErrClass::Parse, "bad #RESTRICT".into());
        };
        let mut stmt = match exec::parse(sql) {
            Ok(s) => s,
            Err(e) => return Out::Err(ErrClass::Parse, e),
        };
        if let Statement::CreateTable(ct) = &mut stmt {
            for c in ct.table_constraints.iter_mut() {
                if let vibesql_ast::TableConstraintKind::ForeignKey { on_delete, on_update, .. } = &mut c.kind {
                    if which.contains('d') {
                        *on_delete = Some(vibesql_ast::ReferentialAction::Restrict);
                    }
                    if which.contains('u') {
                        *on_update = Some(vibesql_ast::ReferentialAction::Restrict);
                    }
                }
            }
            for col in ct.columns.iter_mut() {
                for c in col.constraints.iter_mut() {
                    if let vibesql_ast::ColumnConstraintKind::References { on_delete, on_update, .. } = &mut c.kind {
                        if which.contains('d') {
                            *on_delete = Some(vibesql_ast::ReferentialAction::Restrict);
                        }
                        if which.contains('u') {
                            *on_update = Some(vibesql_ast::ReferentialAction::Restrict);
                        }
                    }
                }
            }
        }
        return exec::exec_stmt(db, &stmt);
    }
    exec::exec(db, op)
}

/// Fresh database after a prelude; a failing prelude statement is a harness error.
pub fn fresh(prelude: &[String]) -> Result<Database, String> {
    let mut db = Database::new();
    for s in prelude {
        let o = apply(&mut db, s);
        if !o.is_ok() {
            return Err(format!("prelude statement failed: {} => {}", s, o.brief()));
        }
    }
    Ok(db)
}

/// Read the model's tables from the real database (all columns must hold integers or NULL).
pub fn read_tables(db: &Database, names: &[&str]) -> Result<Tables, String> {
    let mut t = Tables::new();
    for n in names {
        let mut rows: Vec<Row> = vec![];
        for r in vcore::obs::rows_of(db, n) {
            let mut row = vec![];
            for v in &r {
                match val::norm(v) {
                    val::NV::Null => row.push(None),
                    val::NV::Int(i) => row.push(Some(i as i64)),
                    other => return Err(format!("non-integer value {:?} in table {}", other, n)),
                }
            }
            rows.push(row);
        }
        t.insert(n.to_string(), rows);
    }
    Ok(t)
}

pub fn read_schema_tables(db: &Database, s: &Schema) -> Result<Tables, String> {
    read_tables(db, &s.names())
}

#[derive(Default, Debug, Clone)]
pub struct ReachStats {
    pub states: u64,
    pub transitions: u64,
    pub ok: u64,
    pub err: u64,
    pub per_depth: Vec<u64>,
}

/// All distinct states (canonical whole-value fingerprint) reachable from the prelude in ≤ depth
/// steps of `setup`; breadth first, so each state carries a shortest history.
pub fn reach(prelude: &[String], setup: &[String], depth: usize) -> Result<(Vec<(Database, Vec<String>)>, ReachStats), String> {
    let db0 = fresh(prelude)?;
    let mut seen: HashSet<u128> = HashSet::new();
    seen.insert(vcore::fp::fingerprint(&db0));
    let mut all: Vec<(Database, Vec<String>)> = vec![(db0, vec![])];
    let mut st = ReachStats { states: 1, per_depth: vec![1], ..Default::default() };
    let mut lo = 0usize;
    for _ in 0..depth {
        let hi = all.len();
        let frontier: Vec<usize> = (lo..hi).collect();
        let exp: Vec<Vec<(Database, Vec<String>, u128, bool)>> = vcore::util::par_map(&frontier, |_, i| {
            let (db, hist) = &all[*i];
            let mut v = vec![];
            for op in setup {
                let mut d2 = db.clone();
                let o = apply(&mut d2, op);
                let mut h = hist.clone();
                h.push(op.clone());
                let k = vcore::fp::fingerprint(&d2);
                v.push((d2, h, k, o.is_ok()));
            }
            v
        });
        let mut added = 0u64;
        for v in exp {
            for (d, h, k, ok) in v {
                st.transitions += 1;
                if ok {
                    st.ok += 1;
                } else {
                    st.err += 1;
                }
                if seen.insert(k) {
                    all.push((d, h));
                    added += 1;
                }
            }
        }
        st.states += added;
        st.per_depth.push(added);
        lo = hi;
    }
    Ok((all, st))
}

/// Outcome text of a probe *sequence* executed on a private clone: every outcome (rows as bags,
/// counts, error class) in order.
pub fn future_seq(db: &Database, seqs: &[Vec<String>]) -> Vec<String> {
    seqs.iter()
        .map(|seq| {
            let mut c = db.clone();
            let mut s = String::new();
            for q in seq {
                let o = apply(&mut c, q);
                let r = match &o {
                    Out::Rows(r) => val::fmt_bag(&val::bag(r)),
                    Out::Count(n) => format!("count({})", n),
                    Out::Done => "ok".into(),
                    Out::Err(..) => "err".into(),
                    Out::Panic(_) => "PANIC".into(),
                };
                s.push_str(&format!("{} => {}; ", q, r));
            }
            s
        })
        .collect()
}

pub fn strs(v: &[&str]) -> Vec<String> {
    v.iter().map(|s| s.to_string()).collect()
}

// ------------------------------------------------------------------------------------------------
// Worker isolation (DESIGN R4): the engine may abort the process (unbounded recursion through a
// cycle of references, a huge allocation). Each unit of a check (a C12 configuration, a C11
// scenario) is explored by a worker subprocess that reports its findings as one JSON document; a
// worker that dies is re-run single-threaded with a trace of the in-flight case, and the case it
// died on is reported.
// ------------------------------------------------------------------------------------------------

use serde_json::{json, Value};
use std::io::Write;
use std::sync::atomic::{AtomicU64, Ordering};
use std::sync::{Mutex, OnceLock};

/// What a worker collects instead of writing a report of its own.
#[derive(Default)]
pub struct Collector {
    violations: Mutex<Vec<(Vec<(String, String)>, String, Value)>>,
    pub failing: AtomicU64,
    machinery: Mutex<Vec<String>>,
}

impl Collector {
    /// First witness per signature is kept (enumeration is simplest first); all are counted.
    pub fn violation(&self, sig: &[(&'static str, String)], what: String, case: Value) {
        self.failing.fetch_add(1, Ordering::Relaxed);
        let sig: Vec<(String, String)> = sig.iter().map(|(k, v)| (k.to_string(), v.clone())).collect();
        let mut v = self.violations.lock().unwrap();
        if v.iter().any(|(s, _, _)| *s == sig) {
            return;
        }
        v.push((sig, what, case));
    }
    pub fn machinery_error(&self, s: String) {
        self.machinery.lock().unwrap().push(s);
    }
    pub fn to_json(&self) -> Value {
        let v = self.violations.lock().unwrap();
        json!({
            "violations": v.iter().map(|(s, w, c)| json!({"sig": s.iter().map(|(k, x)| json!([k, x])).collect::<Vec<_>>(), "what": w, "case": c})).collect::<Vec<_>>(),
            "failing_total": self.failing.load(Ordering::Relaxed),
            "machinery_errors": *self.machinery.lock().unwrap(),
        })
    }
}

/// Feed a worker's findings into the report of the parent.
pub fn merge_into(rep: &vcore::report::Report, unit: &str, res: &Value) {
    let mut merged = 0u64;
    for v in res["violations"].as_array().cloned().unwrap_or_default() {
        let sig: Vec<(String, String)> = v["sig"]
            .as_array()
            .map(|a| a.iter().map(|kv| (kv[0].as_str().unwrap_or("").to_string(), kv[1].as_str().unwrap_or("").to_string())).collect())
            .unwrap_or_default();
        // Report wants &'static keys: the key set of each check is fixed
        let sig_ref: Vec<(&str, String)> = sig.iter().map(|(k, x)| (k.as_str(), x.clone())).collect();
        rep.violation(&sig_ref, v["what"].as_str().unwrap_or("").to_string(), v["case"].clone());
        merged += 1;
    }
    let total = res["failing_total"].as_u64().unwrap_or(merged);
    if total > merged {
        rep.total_failing_cases.fetch_add(total - merged, Ordering::Relaxed);
    }
    for m in res["machinery_errors"].as_array().cloned().unwrap_or_default() {
        rep.machinery_error(format!("{}: {}", unit, m.as_str().unwrap_or("")));
    }
}

static TRACE: OnceLock<Option<Mutex<std::fs::File>>> = OnceLock::new();

fn trace_file() -> &'static Option<Mutex<std::fs::File>> {
    TRACE.get_or_init(|| std::env::var("FKATOM_TRACE").ok().and_then(|p| std::fs::File::create(p).ok()).map(Mutex::new))
}

pub fn tracing() -> bool {
    trace_file().is_some()
}

/// Record the case that is about to be executed (only in a trace re-run; unbuffered).
pub fn trace(case: &Value) {
    if let Some(f) = trace_file() {
        let mut f = f.lock().unwrap();
        let _ = f.write_all(format!("{}\n", case).as_bytes());
    }
}

pub struct UnitOutcome {
    pub unit: String,
    /// the worker's RESULT document
    pub result: Option<Value>,
    /// the worker died (status text) and, if the trace re-run died too, the in-flight case
    pub died: Option<(String, Option<Value>)>,
}

fn spawn_worker(id: &str, tier: &str, unit: &str, threads: usize, rss_gb: u64, trace: Option<&str>) -> std::io::Result<std::process::Child> {
    let exe = std::env::current_exe()?;
    let mut c = std::process::Command::new(exe);
    c.args(["worker", id, tier, unit])
        .env("VERIF_THREADS", threads.to_string())
        .env("VERIF_RSS_CAP_GB", rss_gb.to_string())
        .stdout(std::process::Stdio::piped())
        .stderr(std::process::Stdio::null());
    match trace {
        Some(p) => {
            c.env("FKATOM_TRACE", p);
        }
        None => {
            c.env_remove("FKATOM_TRACE");
        }
    }
    c.spawn()
}

fn collect_worker(child: std::process::Child) -> (Option<Value>, String) {
    match child.wait_with_output() {
        Err(e) => (None, format!("wait failed: {}", e)),
        Ok(o) => {
            let text = String::from_utf8_lossy(&o.stdout);
            let res = text.lines().rev().find_map(|l| l.strip_prefix("RESULT ").and_then(|j| serde_json::from_str::<Value>(j).ok()));
            (res, format!("{}", o.status))
        }
    }
}

/// Run one worker per unit, `parallel` at a time. A worker that dies without a RESULT is re-run
/// single-threaded with tracing.
pub fn run_workers(id: &str, tier: &str, units: &[String], parallel: usize) -> Vec<UnitOutcome> {
    let cores = vcore::util::n_threads();
    let parallel = parallel.max(1).min(units.len().max(1));
    let threads = (cores / parallel).max(1);
    let rss_total = std::env::var("VERIF_RSS_CAP_GB").ok().and_then(|s| s.parse::<u64>().ok()).unwrap_or(20);
    let rss_gb = (rss_total / parallel as u64).max(2);
    let mut out: Vec<UnitOutcome> = vec![];
    let mut next = 0usize;
    let mut running: Vec<(String, std::process::Child)> = vec![];
    while next < units.len() || !running.is_empty() {
        while running.len() < parallel && next < units.len() {
            match spawn_worker(id, tier, &units[next], threads, rss_gb, None) {
                Ok(c) => running.push((units[next].clone(), c)),
                Err(e) => out.push(UnitOutcome { unit: units[next].clone(), result: None, died: Some((format!("cannot spawn: {}", e), None)) }),
            }
            next += 1;
        }
        // wait for the oldest (workers are short; order of completion does not matter)
        if !running.is_empty() {
            let (unit, child) = running.remove(0);
            let (res, status) = collect_worker(child);
            match res {
                Some(r) => out.push(UnitOutcome { unit, result: Some(r), died: None }),
                None => {
                    // died: single-threaded re-run with a trace of the in-flight case
                    let path = format!("/tmp/fkatom-trace-{}-{}.jsonl", std::process::id(), out.len());
                    let rerun = spawn_worker(id, tier, &unit, 1, rss_gb, Some(&path)).map(collect_worker);
                    let last = std::fs::read_to_string(&path).ok().and_then(|t| t.lines().last().and_then(|l| serde_json::from_str::<Value>(l).ok()));
                    let _ = std::fs::remove_file(&path);
                    match rerun {
                        Ok((Some(r), _)) => out.push(UnitOutcome { unit, result: Some(r), died: Some((status, None)) }),
                        Ok((None, st2)) => out.push(UnitOutcome { unit, result: None, died: Some((format!("{} / {}", status, st2), last)) }),
                        Err(e) => out.push(UnitOutcome { unit, result: None, died: Some((format!("{} / cannot spawn: {}", status, e), None)) }),
                    }
                }
            }
        }
    }
    out
}

pub fn print_result(v: &Value) {
    println!("RESULT {}", v);
}
