//! A deliberately boring reference model of tables with integer columns, DML statements of a
//! few shapes and the five referential actions (DESIGN §5 C12). Used by C12 (action conformance,
//! "orphaning statements are rejected") and by C11 ("successful statements apply all rows").
//!
//! Semantics are SQL's end-of-statement semantics, chosen *leniently*: wherever engines legitimately
//! differ (RESTRICT vs NO ACTION when the referencing row disappears in the same statement,
//! self-references inside one batch) the model does not demand a rejection. An engine that rejects a
//! statement the model would apply is never a violation (the properties do not forbid false
//! rejections); the model only says (a) when a statement MUST be rejected because applying it leaves
//! a non-NULL foreign key without a parent, and (b) what the tables must contain if it is accepted.

use std::collections::BTreeMap;

pub type V = Option<i64>;
pub type Row = Vec<V>;
/// table name (upper case, as stored) -> rows (bag; order irrelevant)
pub type Tables = BTreeMap<String, Vec<Row>>;

#[derive(Clone, Copy, PartialEq, Eq, Debug)]
pub enum Act {
    Cascade,
    SetNull,
    SetDefault,
    Restrict,
    NoAction,
}

impl Act {
    pub const ALL: [Act; 5] = [Act::Cascade, Act::SetNull, Act::SetDefault, Act::Restrict, Act::NoAction];
    pub fn label(self) -> &'static str {
        match self {
            Act::Cascade => "CASCADE",
            Act::SetNull => "SET NULL",
            Act::SetDefault => "SET DEFAULT",
            Act::Restrict => "RESTRICT",
            Act::NoAction => "NO ACTION",
        }
    }
}

#[derive(Clone, Debug)]
pub struct TableDecl {
    pub name: &'static str,
    pub cols: Vec<&'static str>,
    /// default value per column (None = no default = NULL)
    pub defaults: Vec<V>,
}

#[derive(Clone, Debug)]
pub struct Fk {
    pub child: &'static str,
    pub cols: Vec<usize>,
    pub parent: &'static str,
    pub pcols: Vec<usize>,
    pub on_delete: Act,
    pub on_update: Act,
}

#[derive(Clone, Debug, Default)]
pub struct Schema {
    pub tables: Vec<TableDecl>,
    pub fks: Vec<Fk>,
}

impl Schema {
    pub fn table(&self, name: &str) -> &TableDecl {
        self.tables.iter().find(|t| t.name == name).unwrap_or_else(|| panic!("harness: unknown table {}", name))
    }
    pub fn names(&self) -> Vec<&'static str> {
        self.tables.iter().map(|t| t.name).collect()
    }
}

#[derive(Clone, Debug, PartialEq)]
pub enum Pred {
    All,
    /// DELETE/UPDATE without WHERE
    NoWhere,
    Eq(usize, i64),
    Ge(usize, i64),
}

#[derive(Clone, Debug, PartialEq)]
pub enum SetExpr {
    Const(V),
    /// col = col + k
    Add(i64),
}

#[derive(Clone, Debug, PartialEq)]
pub enum Op {
    /// rows give a value for each listed column (`cols` = None: all columns in order)
    Insert { table: &'static str, cols: Option<Vec<usize>>, rows: Vec<Row> },
    InsertSelect { table: &'static str, from: &'static str, column_list: bool },
    Delete { table: &'static str, pred: Pred },
    Update { table: &'static str, pred: Pred, col: usize, set: SetExpr },
    Truncate { table: &'static str, cascade: bool },
}

fn lit(v: &V) -> String {
    match v {
        None => "NULL".into(),
        Some(i) if *i < 0 => format!("(0 - {})", -i),
        Some(i) => i.to_string(),
    }
}

fn pred_sql(t: &TableDecl, p: &Pred) -> String {
    match p {
        Pred::NoWhere => String::new(),
        Pred::All => format!(" WHERE {} >= 0", t.cols[0]),
        Pred::Eq(c, v) => format!(" WHERE {} = {}", t.cols[*c], v),
        Pred::Ge(c, v) => format!(" WHERE {} >= {}", t.cols[*c], v),
    }
}

fn pred_holds(p: &Pred, r: &Row) -> bool {
    match p {
        Pred::NoWhere => true,
        Pred::All => r[0].map(|x| x >= 0).unwrap_or(false),
        Pred::Eq(c, v) => r[*c] == Some(*v),
        Pred::Ge(c, v) => r[*c].map(|x| x >= *v).unwrap_or(false),
    }
}

impl Op {
    pub fn table(&self) -> &'static str {
        match self {
            Op::Insert { table, .. }
            | Op::InsertSelect { table, .. }
            | Op::Delete { table, .. }
            | Op::Update { table, .. }
            | Op::Truncate { table, .. } => table,
        }
    }

    pub fn sql(&self, s: &Schema) -> String {
        match self {
            Op::Insert { table, cols, rows } => {
                let t = s.table(table);
                let cl = match cols {
                    None => String::new(),
                    Some(c) => format!(" ({})", c.iter().map(|i| t.cols[*i]).collect::<Vec<_>>().join(", ")),
                };
                let rs: Vec<String> =
                    rows.iter().map(|r| format!("({})", r.iter().map(lit).collect::<Vec<_>>().join(", "))).collect();
                format!("INSERT INTO {}{} VALUES {}", table.to_lowercase(), cl, rs.join(", "))
            }
            Op::InsertSelect { table, from, column_list } => {
                if *column_list {
                    let t = s.table(table);
                    let f = s.table(from);
                    format!(
                        "INSERT INTO {} ({}) SELECT {} FROM {}",
                        table.to_lowercase(),
                        t.cols.join(", "),
                        f.cols.join(", "),
                        from.to_lowercase()
                    )
                } else {
                    format!("INSERT INTO {} SELECT * FROM {}", table.to_lowercase(), from.to_lowercase())
                }
            }
            Op::Delete { table, pred } => format!("DELETE FROM {}{}", table.to_lowercase(), pred_sql(s.table(table), pred)),
            Op::Update { table, pred, col, set } => {
                let t = s.table(table);
                let c = t.cols[*col];
                let e = match set {
                    SetExpr::Const(v) => lit(v),
                    SetExpr::Add(k) if *k >= 0 => format!("{} + {}", c, k),
                    SetExpr::Add(k) => format!("{} - {}", c, -k),
                };
                format!("UPDATE {} SET {} = {}{}", table.to_lowercase(), c, e, pred_sql(t, pred))
            }
            Op::Truncate { table, cascade } => {
                format!("TRUNCATE TABLE {}{}", table.to_lowercase(), if *cascade { " CASCADE" } else { "" })
            }
        }
    }

    /// Coarse statement shape (feature of the input, used in signatures).
    pub fn shape(&self, s: &Schema) -> String {
        let role = |t: &str| {
            let is_parent = s.fks.iter().any(|f| f.parent == t);
            let is_child = s.fks.iter().any(|f| f.child == t);
            match (is_parent, is_child) {
                (true, true) => "parent+child",
                (true, false) => "parent",
                (false, true) => "child",
                _ => "plain",
            }
        };
        match self {
            Op::Insert { table, cols, rows } => format!(
                "insert_{}_{}{}",
                role(table),
                if rows.len() > 1 { "multi" } else { "single" },
                if cols.is_some() { "_collist" } else { "" }
            ),
            Op::InsertSelect { table, column_list, .. } => {
                format!("insert_select_{}_{}", role(table), if *column_list { "normal" } else { "bulk" })
            }
            Op::Delete { table, pred } => format!(
                "delete_{}_{}",
                role(table),
                match pred {
                    Pred::NoWhere => "nowhere",
                    Pred::All => "range_all",
                    Pred::Eq(0, _) => "by_first_col",
                    Pred::Eq(..) => "by_other_col",
                    Pred::Ge(..) => "range",
                }
            ),
            Op::Update { table, pred, col, set } => {
                let refd = s.fks.iter().any(|f| f.parent == *table && f.pcols.contains(col));
                let fkcol = s.fks.iter().any(|f| f.child == *table && f.cols.contains(col));
                format!(
                    "update_{}_{}_{}_{}",
                    role(table),
                    match (refd, fkcol) {
                        (true, true) => "refkey+fkcol",
                        (true, false) => "refkey",
                        (false, true) => "fkcol",
                        _ => "othercol",
                    },
                    match set {
                        SetExpr::Const(None) => "null",
                        SetExpr::Const(_) => "const",
                        SetExpr::Add(_) => "shift",
                    },
                    match pred {
                        Pred::NoWhere => "nowhere",
                        Pred::All | Pred::Ge(..) => "range",
                        Pred::Eq(0, _) => "by_first_col",
                        Pred::Eq(..) => "by_other_col",
                    }
                )
            }
            Op::Truncate { table, cascade } => format!("truncate_{}{}", role(table), if *cascade { "_cascade" } else { "" }),
        }
    }
}

#[derive(Clone, Debug)]
pub struct Expect {
    /// Some(reason): applying the statement leaves a dangling non-NULL foreign key, it must be rejected
    pub must_reject: Option<String>,
    /// the tables if the statement is accepted
    pub post: Tables,
    /// number of rows of the target table the statement itself affects (the count it should report)
    pub affected: usize,
    /// child rows changed/removed by referential actions (non-vacuity)
    pub action_rows: usize,
    /// the model cannot say (e.g. key collision inside the statement): do not compare
    pub undefined: Option<String>,
}

fn key(r: &Row, cols: &[usize]) -> Option<Vec<i64>> {
    cols.iter().map(|c| r[*c]).collect()
}

/// All dangling references in `t` (child table, row, parent table).
pub fn dangling(s: &Schema, t: &Tables) -> Vec<String> {
    let mut out = vec![];
    for fk in &s.fks {
        let empty = vec![];
        let parents = t.get(fk.parent).unwrap_or(&empty);
        for r in t.get(fk.child).unwrap_or(&empty) {
            let Some(k) = key(r, &fk.cols) else { continue }; // a NULL component: not checked (MATCH SIMPLE)
            if !parents.iter().any(|p| key(p, &fk.pcols).as_ref() == Some(&k)) {
                out.push(format!("{}{:?} -> {}{:?} has no parent", fk.child, r, fk.parent, k));
            }
        }
    }
    out
}

/// Propagate key changes of `table` (pairs old row -> new row / None = deleted) to referencing rows.
fn propagate(s: &Schema, t: &mut Tables, table: &str, changes: &[(Row, Option<Row>)], action_rows: &mut usize, depth: usize) {
    if depth > 8 || changes.is_empty() {
        return;
    }
    for fk in s.fks.iter().filter(|f| f.parent == table) {
        // old key -> new key (None = deleted); unchanged keys and keys with a NULL component are skipped
        let mut map: Vec<(Vec<i64>, Option<Vec<V>>)> = vec![];
        for (old, new) in changes {
            let Some(ok) = key(old, &fk.pcols) else { continue };
            let nk: Option<Vec<V>> = new.as_ref().map(|n| fk.pcols.iter().map(|c| n[*c]).collect());
            if let Some(nk) = &nk {
                if nk.iter().map(|v| *v).collect::<Option<Vec<i64>>>().as_ref() == Some(&ok) {
                    continue;
                }
            }
            map.push((ok, nk));
        }
        if map.is_empty() {
            continue;
        }
        let child_decl = s.table(fk.child);
        let rows = t.get(fk.child).cloned().unwrap_or_default();
        let mut kept: Vec<Row> = vec![];
        let mut child_changes: Vec<(Row, Option<Row>)> = vec![];
        for r in rows {
            let hit = key(&r, &fk.cols).and_then(|k| map.iter().find(|(ok, _)| *ok == k));
            let Some((_, nk)) = hit else {
                kept.push(r);
                continue;
            };
            let act = if nk.is_none() { fk.on_delete } else { fk.on_update };
            match act {
                Act::Restrict | Act::NoAction => kept.push(r), // decided by the end-of-statement check
                Act::Cascade => {
                    *action_rows += 1;
                    match nk {
                        None => child_changes.push((r, None)),
                        Some(nk) => {
                            let mut n = r.clone();
                            for (c, v) in fk.cols.iter().zip(nk) {
                                n[*c] = *v;
                            }
                            kept.push(n.clone());
                            child_changes.push((r, Some(n)));
                        }
                    }
                }
                Act::SetNull | Act::SetDefault => {
                    *action_rows += 1;
                    let mut n = r.clone();
                    for c in &fk.cols {
                        n[*c] = if act == Act::SetNull { None } else { child_decl.defaults[*c] };
                    }
                    kept.push(n.clone());
                    child_changes.push((r, Some(n)));
                }
            }
        }
        t.insert(fk.child.to_string(), kept);
        propagate(s, t, fk.child, &child_changes, action_rows, depth + 1);
    }
}

fn has_dup_key(rows: &[Row], cols: &[usize]) -> bool {
    let mut seen = std::collections::BTreeSet::new();
    for r in rows {
        if let Some(k) = key(r, cols) {
            if !seen.insert(k) {
                return true;
            }
        }
    }
    false
}

pub fn expect(s: &Schema, pre: &Tables, op: &Op) -> Expect {
    let mut t = pre.clone();
    let mut affected = 0usize;
    let mut action_rows = 0usize;
    let mut undefined = None;
    match op {
        Op::Insert { table, cols, rows } => {
            let d = s.table(table);
            for r in rows {
                let full: Row = match cols {
                    None => r.clone(),
                    Some(cs) => {
                        let mut f = d.defaults.clone();
                        for (c, v) in cs.iter().zip(r) {
                            f[*c] = *v;
                        }
                        f
                    }
                };
                t.entry(table.to_string()).or_default().push(full);
                affected += 1;
            }
        }
        Op::InsertSelect { table, from, .. } => {
            let src = pre.get(*from).cloned().unwrap_or_default();
            affected = src.len();
            t.entry(table.to_string()).or_default().extend(src);
        }
        Op::Delete { table, pred } => {
            let rows = t.get(*table).cloned().unwrap_or_default();
            let (gone, kept): (Vec<Row>, Vec<Row>) = rows.into_iter().partition(|r| pred_holds(pred, r));
            affected = gone.len();
            t.insert(table.to_string(), kept);
            let changes: Vec<(Row, Option<Row>)> = gone.into_iter().map(|r| (r, None)).collect();
            propagate(s, &mut t, table, &changes, &mut action_rows, 0);
        }
        Op::Update { table, pred, col, set } => {
            let rows = t.get(*table).cloned().unwrap_or_default();
            let mut out = vec![];
            let mut changes = vec![];
            for r in rows {
                if pred_holds(pred, &r) {
                    affected += 1;
                    let mut n = r.clone();
                    n[*col] = match set {
                        SetExpr::Const(v) => *v,
                        SetExpr::Add(k) => r[*col].map(|x| x + k),
                    };
                    out.push(n.clone());
                    changes.push((r, Some(n)));
                } else {
                    out.push(r);
                }
            }
            // a statement that sets a referenced key and a referencing column of the same rows at once,
            // or makes two rows share a referenced key, has no single agreed result: do not compare
            for fk in s.fks.iter().filter(|f| f.parent == *table && f.pcols.contains(col)) {
                if has_dup_key(&out, &fk.pcols) {
                    undefined = Some("referenced key no longer unique".to_string());
                }
                if fk.child == *table && fk.cols.contains(col) {
                    undefined = Some("self-referencing column set directly".to_string());
                }
            }
            t.insert(table.to_string(), out);
            propagate(s, &mut t, table, &changes, &mut action_rows, 0);
        }
        Op::Truncate { table, cascade } => {
            affected = t.get(*table).map(|r| r.len()).unwrap_or(0);
            let mut todo = vec![table.to_string()];
            let mut done: Vec<String> = vec![];
            while let Some(x) = todo.pop() {
                if done.contains(&x) {
                    continue;
                }
                t.insert(x.clone(), vec![]);
                if *cascade {
                    for fk in s.fks.iter().filter(|f| f.parent == x) {
                        todo.push(fk.child.to_string());
                    }
                }
                done.push(x);
            }
        }
    }
    let d = dangling(s, &t);
    Expect { must_reject: d.first().cloned(), post: t, affected, action_rows, undefined }
}

pub fn same_tables(a: &Tables, b: &Tables) -> bool {
    let norm = |t: &Tables| -> BTreeMap<String, Vec<Row>> {
        t.iter()
            .map(|(k, v)| {
                let mut v = v.clone();
                v.sort();
                (k.clone(), v)
            })
            .collect()
    };
    norm(a) == norm(b)
}

pub fn fmt_tables(t: &Tables) -> String {
    t.iter()
        .map(|(k, v)| {
            let mut v = v.clone();
            v.sort();
            format!(
                "{}={{{}}}",
                k,
                v.iter()
                    .map(|r| format!("({})", r.iter().map(|x| x.map(|i| i.to_string()).unwrap_or("NULL".into())).collect::<Vec<_>>().join(",")))
                    .collect::<Vec<_>>()
                    .join(",")
            )
        })
        .collect::<Vec<_>>()
        .join(" ")
}

#[cfg(test)]
mod tests {
    use super::*;

    fn pc(od: Act, ou: Act) -> Schema {
        Schema {
            tables: vec![
                TableDecl { name: "P", cols: vec!["id", "v"], defaults: vec![None, None] },
                TableDecl { name: "C", cols: vec!["id", "pid"], defaults: vec![None, Some(1)] },
            ],
            fks: vec![Fk { child: "C", cols: vec![1], parent: "P", pcols: vec![0], on_delete: od, on_update: ou }],
        }
    }
    fn tabs(p: &[(i64, i64)], c: &[(i64, V)]) -> Tables {
        let mut t = Tables::new();
        t.insert("P".into(), p.iter().map(|(a, b)| vec![Some(*a), Some(*b)]).collect());
        t.insert("C".into(), c.iter().map(|(a, b)| vec![Some(*a), *b]).collect());
        t
    }

    #[test]
    fn delete_actions() {
        let pre = tabs(&[(1, 10), (2, 20)], &[(1, Some(1)), (2, Some(2))]);
        let del = Op::Delete { table: "P", pred: Pred::Eq(0, 2) };
        let e = expect(&pc(Act::Cascade, Act::NoAction), &pre, &del);
        assert!(e.must_reject.is_none());
        assert!(same_tables(&e.post, &tabs(&[(1, 10)], &[(1, Some(1))])));
        let e = expect(&pc(Act::SetNull, Act::NoAction), &pre, &del);
        assert!(same_tables(&e.post, &tabs(&[(1, 10)], &[(1, Some(1)), (2, None)])));
        let e = expect(&pc(Act::SetDefault, Act::NoAction), &pre, &del);
        assert!(e.must_reject.is_none());
        assert!(same_tables(&e.post, &tabs(&[(1, 10)], &[(1, Some(1)), (2, Some(1))])));
        // default 1 disappears with its parent
        let e = expect(&pc(Act::SetDefault, Act::NoAction), &pre, &Op::Delete { table: "P", pred: Pred::Eq(0, 1) });
        assert!(e.must_reject.is_some());
        let e = expect(&pc(Act::NoAction, Act::NoAction), &pre, &del);
        assert!(e.must_reject.is_some());
        let e = expect(&pc(Act::Restrict, Act::NoAction), &pre, &del);
        assert!(e.must_reject.is_some());
    }

    #[test]
    fn update_actions() {
        let pre = tabs(&[(1, 10), (2, 20)], &[(1, Some(1)), (2, Some(2))]);
        let shift = Op::Update { table: "P", pred: Pred::NoWhere, col: 0, set: SetExpr::Add(1) };
        // simultaneous: 1->2, 2->3 must not chain
        let e = expect(&pc(Act::NoAction, Act::Cascade), &pre, &shift);
        assert!(e.must_reject.is_none());
        assert!(same_tables(&e.post, &tabs(&[(2, 10), (3, 20)], &[(1, Some(2)), (2, Some(3))])));
        let e = expect(&pc(Act::NoAction, Act::SetNull), &pre, &shift);
        assert!(same_tables(&e.post, &tabs(&[(2, 10), (3, 20)], &[(1, None), (2, None)])));
        let e = expect(&pc(Act::NoAction, Act::NoAction), &pre, &shift);
        assert!(e.must_reject.is_some());
        // unchanged key: nothing happens
        let noop = Op::Update { table: "P", pred: Pred::Eq(0, 1), col: 0, set: SetExpr::Const(Some(1)) };
        let e = expect(&pc(Act::NoAction, Act::SetNull), &pre, &noop);
        assert!(e.must_reject.is_none());
        assert!(same_tables(&e.post, &pre));
        // child update to a missing parent
        let e = expect(&pc(Act::NoAction, Act::NoAction), &pre, &Op::Update { table: "C", pred: Pred::Eq(0, 1), col: 1, set: SetExpr::Const(Some(9)) });
        assert!(e.must_reject.is_some());
    }

    #[test]
    fn self_reference() {
        let s = Schema {
            tables: vec![TableDecl { name: "E", cols: vec!["id", "boss"], defaults: vec![None, None] }],
            fks: vec![Fk { child: "E", cols: vec![1], parent: "E", pcols: vec![0], on_delete: Act::Cascade, on_update: Act::Cascade }],
        };
        let mut pre = Tables::new();
        pre.insert("E".into(), vec![vec![Some(2), Some(1)], vec![Some(1), None], vec![Some(3), Some(2)], vec![Some(4), None]]);
        let e = expect(&s, &pre, &Op::Delete { table: "E", pred: Pred::Eq(0, 1) });
        assert!(e.must_reject.is_none());
        let mut want = Tables::new();
        want.insert("E".into(), vec![vec![Some(4), None]]);
        assert!(same_tables(&e.post, &want));
        let e = expect(&s, &pre, &Op::Update { table: "E", pred: Pred::NoWhere, col: 0, set: SetExpr::Add(10) });
        let mut want = Tables::new();
        want.insert("E".into(), vec![vec![Some(12), Some(11)], vec![Some(11), None], vec![Some(13), Some(12)], vec![Some(14), None]]);
        assert!(e.must_reject.is_none(), "{:?}", e.must_reject);
        assert!(same_tables(&e.post, &want), "{}", fmt_tables(&e.post));
    }
}
