//! C05 — join ordering, join algorithms and subquery rewrites preserve query meaning.
//!
//! Space: equivalence classes of query formulations (built in `catalogue`) × every database of a
//! small scope × naming variants (qualified / aliased / TPC-H-style prefixed unqualified / self join)
//! × index variants (none / index on the inner join key / on the outer one / both).
//! Oracle: every member of a class must return the bag the definitional nested-loop evaluator
//! (`mini.rs`) computes for *that member's own AST*; the evaluator must itself agree on all members of
//! a class (otherwise the claimed equivalence is the harness' mistake: exit 2, never a verdict).
//! Everything is enumerated completely within the tier's bounds; nothing is sampled.

use std::collections::{BTreeMap, BTreeSet, HashMap, HashSet};
use std::sync::atomic::{AtomicU64, Ordering};
use std::sync::Mutex;

use serde_json::{json, Value};
use vcore::exec::{self, Out};
use vcore::report::Report;
use vcore::util;
use vcore::val::{self, NV};
use vibesql_storage::Database;

use crate::mini::{self, and, and_all, cmp, is_not_null, is_null, not, or, Db, Sel, Table, Val, E, F, JK, Q};

// =============================================================================================
// naming variants
// =============================================================================================

#[derive(Clone, Debug)]
pub struct Tab {
    /// physical table
    pub name: String,
    pub alias: Option<String>,
    /// qualifier used in column references (None = unqualified)
    pub qual: Option<String>,
    pub k: String,
    pub p: String,
}

impl Tab {
    fn new(name: &str, alias: Option<&str>, qualified: bool, k: &str, p: &str) -> Tab {
        let qual = if qualified { Some(alias.unwrap_or(name).to_string()) } else { None };
        Tab { name: name.into(), alias: alias.map(|s| s.into()), qual, k: k.into(), p: p.into() }
    }
    fn k(&self) -> E {
        E::Col(self.qual.clone(), self.k.clone())
    }
    fn p(&self) -> E {
        E::Col(self.qual.clone(), self.p.clone())
    }
    fn cols(&self) -> Vec<E> {
        vec![self.k(), self.p()]
    }
    fn f(&self) -> F {
        F::T { name: self.name.clone(), alias: self.alias.clone() }
    }
    /// the name under which the item is visible
    fn vis(&self) -> String {
        self.alias.clone().unwrap_or_else(|| self.name.clone())
    }
    /// `(SELECT * FROM name) AS vis`
    fn d(&self) -> F {
        F::D {
            q: Box::new(Q { distinct: false, sel: Sel::Star, from: F::T { name: self.name.clone(), alias: None }, wh: None }),
            alias: self.vis(),
        }
    }
    /// `(SELECT k, p FROM name) AS vis` (explicit column list)
    fn d_cols(&self) -> F {
        F::D {
            q: Box::new(Q {
                distinct: false,
                sel: Sel::Cols(vec![E::Col(None, self.k.clone()), E::Col(None, self.p.clone())]),
                from: F::T { name: self.name.clone(), alias: None },
                wh: None,
            }),
            alias: self.vis(),
        }
    }
}

#[derive(Clone, Debug)]
pub struct Names {
    pub id: &'static str,
    /// "plain" = t(a,b) u(a,d) w(a,e); "prefixed" = t(t_a,t_b) u(u_a,u_d) w(w_a,w_e);
    /// "fkstyle" = t(t_a,u_b) u(u_a,u_d) w(w_a,w_e): t's payload column carries u's prefix
    pub schema: &'static str,
    pub t: Tab,
    pub u: Tab,
    pub w: Tab,
    /// u is a second instance of the physical table t
    pub self_join: bool,
    /// how u's columns are written *inside* a subquery over u (differs from `u` only for "innerbare"/"bothbare")
    pub u_in: Tab,
    /// how t's columns are written inside a subquery over u (differs from `t` only for "bothbare")
    pub t_in: Tab,
}

pub fn names(id: &str) -> Names {
    match id {
        "qual" => Names {
            id: "qual",
            schema: "plain",
            t: Tab::new("t", None, true, "a", "b"),
            u: Tab::new("u", None, true, "a", "d"),
            w: Tab::new("w", None, true, "a", "e"),
            self_join: false,
            u_in: Tab::new("u", None, true, "a", "d"),
            t_in: Tab::new("t", None, true, "a", "b"),
        },
        "alias" => Names {
            id: "alias",
            schema: "plain",
            t: Tab::new("t", Some("x"), true, "a", "b"),
            u: Tab::new("u", Some("y"), true, "a", "d"),
            w: Tab::new("w", Some("z"), true, "a", "e"),
            self_join: false,
            u_in: Tab::new("u", Some("y"), true, "a", "d"),
            t_in: Tab::new("t", Some("x"), true, "a", "b"),
        },
        "prefix" => Names {
            id: "prefix",
            schema: "prefixed",
            t: Tab::new("t", None, false, "t_a", "t_b"),
            u: Tab::new("u", None, false, "u_a", "u_d"),
            w: Tab::new("w", None, false, "w_a", "w_e"),
            self_join: false,
            u_in: Tab::new("u", None, false, "u_a", "u_d"),
            t_in: Tab::new("t", None, false, "t_a", "t_b"),
        },
        "fkstyle" => Names {
            id: "fkstyle",
            schema: "fkstyle",
            t: Tab::new("t", None, false, "t_a", "u_b"),
            u: Tab::new("u", None, false, "u_a", "u_d"),
            w: Tab::new("w", None, false, "w_a", "w_e"),
            self_join: false,
            u_in: Tab::new("u", None, false, "u_a", "u_d"),
            t_in: Tab::new("t", None, false, "t_a", "u_b"),
        },
        "innerbare" => Names {
            id: "innerbare",
            schema: "plain",
            t: Tab::new("t", None, true, "a", "b"),
            u: Tab::new("u", None, true, "a", "d"),
            w: Tab::new("w", None, true, "a", "e"),
            self_join: false,
            // inside the subquery u's columns are unqualified although t has a column of the same name
            u_in: Tab::new("u", None, false, "a", "d"),
            t_in: Tab::new("t", None, true, "a", "b"),
        },
        "bothbare" => Names {
            id: "bothbare",
            schema: "plain",
            // the outer query does not qualify its columns either: `a IN (SELECT a FROM u)`
            t: Tab::new("t", None, false, "a", "b"),
            u: Tab::new("u", None, true, "a", "d"),
            w: Tab::new("w", None, true, "a", "e"),
            self_join: false,
            u_in: Tab::new("u", None, false, "a", "d"),
            // from inside the subquery the outer column needs its qualifier (the inner `a` shadows it)
            t_in: Tab::new("t", None, true, "a", "b"),
        },
        "self" => Names {
            id: "self",
            schema: "plain",
            t: Tab::new("t", Some("x"), true, "a", "b"),
            u: Tab::new("t", Some("y"), true, "a", "b"),
            w: Tab::new("w", Some("z"), true, "a", "e"),
            self_join: true,
            u_in: Tab::new("t", Some("y"), true, "a", "b"),
            t_in: Tab::new("t", Some("x"), true, "a", "b"),
        },
        other => panic!("unknown naming {}", other),
    }
}

fn schema_cols(schema: &str) -> [(&'static str, [&'static str; 2]); 3] {
    match schema {
        "plain" => [("t", ["a", "b"]), ("u", ["a", "d"]), ("w", ["a", "e"])],
        "prefixed" => [("t", ["t_a", "t_b"]), ("u", ["u_a", "u_d"]), ("w", ["w_a", "w_e"])],
        "fkstyle" => [("t", ["t_a", "u_b"]), ("u", ["u_a", "u_d"]), ("w", ["w_a", "w_e"])],
        other => panic!("unknown schema {}", other),
    }
}

// =============================================================================================
// catalogue of equivalence classes
// =============================================================================================

#[derive(Clone, Debug)]
pub struct Member {
    pub family: &'static str,
    pub class: String,
    pub member: String,
    pub q: Q,
    pub sql: String,
    /// which data columns the conditions look at: [t.p, u.p, w used, w.p]
    pub foot: [bool; 4],
    /// syntactic shape tags computed from the AST (used in signatures)
    pub shape: String,
    /// the SQL text parsed once by the real parser (None: the parser rejects it)
    pub stmt: Option<Box<vibesql_ast::SelectStmt>>,
    /// subquery predicates of the outermost WHERE: kind@position tags (used in signatures), "-" if none
    pub subq: String,
}

fn swap_op(op: &'static str) -> &'static str {
    match op {
        "<" => ">",
        "<=" => ">=",
        ">" => "<",
        ">=" => "<=",
        o => o,
    }
}

/// Mirror every comparison and reverse every AND/OR (same meaning, different syntax).
fn flip(e: &E) -> E {
    match e {
        E::Cmp(op, a, b) => E::Cmp(swap_op(op), b.clone(), a.clone()),
        E::And(a, b) => E::And(Box::new(flip(b)), Box::new(flip(a))),
        E::Or(a, b) => E::Or(Box::new(flip(b)), Box::new(flip(a))),
        E::Not(a) => E::Not(Box::new(flip(a))),
        other => other.clone(),
    }
}

fn sel(cols: Vec<E>, from: F, wh: Option<E>) -> Q {
    Q { distinct: false, sel: Sel::Cols(cols), from, wh }
}
fn j(kind: JK, l: F, r: F, on: Option<E>) -> F {
    F::J { kind, l: Box::new(l), r: Box::new(r), on }
}
fn eq(a: E, b: E) -> E {
    cmp("=", a, b)
}

fn mentions(e: &E, c: &str, out: &mut bool) {
    match e {
        E::Col(_, n) => {
            if n.eq_ignore_ascii_case(c) {
                *out = true
            }
        }
        E::Int(_) | E::Null => {}
        E::Cmp(_, a, b) | E::And(a, b) | E::Or(a, b) => {
            mentions(a, c, out);
            mentions(b, c, out)
        }
        E::Not(a) | E::IsNull(a, _) => mentions(a, c, out),
        E::InSub(a, q, _) | E::Quant(_, _, a, q) => {
            mentions(a, c, out);
            mentions_q(q, c, out, false)
        }
        E::Exists(q, _) => mentions_q(q, c, out, false),
    }
}
fn mentions_f(f: &F, c: &str, out: &mut bool) {
    match f {
        F::T { .. } => {}
        F::D { q, .. } => mentions_q(q, c, out, false),
        F::J { l, r, on, .. } => {
            mentions_f(l, c, out);
            mentions_f(r, c, out);
            if let Some(e) = on {
                mentions(e, c, out)
            }
        }
    }
}
/// `top`: the outermost select list is output only and does not count as "looked at"
fn mentions_q(q: &Q, c: &str, out: &mut bool, top: bool) {
    if let (Sel::Max(e), false) = (&q.sel, top) {
        mentions(e, c, out)
    }
    if let (Sel::Cols(cs), false) = (&q.sel, top) {
        // a projected column of a subquery matters when it feeds IN / a derived table; to stay on the
        // safe side every non-top projection counts
        for e in cs {
            mentions(e, c, out)
        }
    }
    mentions_f(&q.from, c, out);
    if let Some(w) = &q.wh {
        mentions(w, c, out)
    }
}
fn uses_table(f: &F, name: &str) -> bool {
    match f {
        F::T { name: n, .. } => n.eq_ignore_ascii_case(name),
        F::D { q, .. } => uses_table_q(q, name),
        F::J { l, r, on, .. } => uses_table(l, name) || uses_table(r, name) || on.as_ref().map(|e| uses_table_e(e, name)).unwrap_or(false),
    }
}
fn uses_table_e(e: &E, name: &str) -> bool {
    match e {
        E::Col(..) | E::Int(_) | E::Null => false,
        E::Cmp(_, a, b) | E::And(a, b) | E::Or(a, b) => uses_table_e(a, name) || uses_table_e(b, name),
        E::Not(a) | E::IsNull(a, _) => uses_table_e(a, name),
        E::InSub(a, q, _) | E::Quant(_, _, a, q) => uses_table_e(a, name) || uses_table_q(q, name),
        E::Exists(q, _) => uses_table_q(q, name),
    }
}
fn uses_table_q(q: &Q, name: &str) -> bool {
    uses_table(&q.from, name) || q.wh.as_ref().map(|e| uses_table_e(e, name)).unwrap_or(false)
}

/// Shape tags of a query: what the optimizer can see syntactically.
fn shape_of(q: &Q) -> String {
    let mut tags: BTreeSet<&'static str> = BTreeSet::new();
    fn conj<'a>(e: &'a E, out: &mut Vec<&'a E>) {
        match e {
            E::And(a, b) => {
                conj(a, out);
                conj(b, out)
            }
            o => out.push(o),
        }
    }
    fn walk_e(e: &E, tags: &mut BTreeSet<&'static str>) {
        match e {
            E::InSub(_, q, neg) => {
                tags.insert(if *neg { "not_in" } else { "in" });
                walk_q(q, tags);
            }
            E::Exists(q, neg) => {
                tags.insert(if *neg { "not_exists" } else { "exists" });
                walk_q(q, tags);
            }
            E::Quant(_, all, _, q) => {
                tags.insert(if *all { "all" } else { "any" });
                walk_q(q, tags);
            }
            E::Cmp(_, a, b) | E::And(a, b) | E::Or(a, b) => {
                walk_e(a, tags);
                walk_e(b, tags)
            }
            E::Not(a) | E::IsNull(a, _) => walk_e(a, tags),
            _ => {}
        }
    }
    fn walk_f(f: &F, tags: &mut BTreeSet<&'static str>) {
        match f {
            F::T { .. } => {}
            F::D { q, .. } => {
                tags.insert("derived");
                walk_q(q, tags)
            }
            F::J { kind, l, r, on } => {
                tags.insert(match kind {
                    JK::Comma => "comma",
                    JK::Cross => "cross",
                    JK::Inner => "join_on",
                });
                walk_f(l, tags);
                walk_f(r, tags);
                if let Some(e) = on {
                    walk_e(e, tags)
                }
            }
        }
    }
    fn walk_q(q: &Q, tags: &mut BTreeSet<&'static str>) {
        walk_f(&q.from, tags);
        if let Some(w) = &q.wh {
            walk_e(w, tags)
        }
    }
    walk_q(q, &mut tags);
    // top-level WHERE conjuncts that are a bare [NOT] IN / [NOT] EXISTS: candidates of the
    // subquery-to-join transformation
    if let Some(w) = &q.wh {
        let mut cs = vec![];
        conj(w, &mut cs);
        for c in cs {
            match c {
                E::InSub(_, _, false) => {
                    tags.insert("top_in");
                }
                E::InSub(_, _, true) => {
                    tags.insert("top_not_in");
                }
                E::Exists(_, false) => {
                    tags.insert("top_exists");
                }
                E::Exists(_, true) => {
                    tags.insert("top_not_exists");
                }
                _ => {}
            }
        }
    }
    if q.distinct {
        tags.insert("distinct");
    }
    if matches!(q.sel, Sel::Star) {
        tags.insert("star");
    }
    tags.into_iter().collect::<Vec<_>>().join("+")
}

/// Does `e` mention a column of the outer table `t` (by qualifier, or by its unique unqualified name)?
fn refs_outer(e: &E, n: &Names) -> bool {
    let t = &n.t;
    match e {
        E::Col(Some(q), _) => Some(q) == t.qual.as_ref() || Some(q) == n.t_in.qual.as_ref(),
        E::Col(None, c) => t.qual.is_none() && (c == &t.k || c == &t.p),
        E::Int(_) | E::Null => false,
        E::Cmp(_, a, b) | E::And(a, b) | E::Or(a, b) => refs_outer(a, n) || refs_outer(b, n),
        E::Not(a) | E::IsNull(a, _) => refs_outer(a, n),
        E::InSub(a, q, _) | E::Quant(_, _, a, q) => refs_outer(a, n) || q.wh.as_ref().map(|w| refs_outer(w, n)).unwrap_or(false),
        E::Exists(q, _) => q.wh.as_ref().map(|w| refs_outer(w, n)).unwrap_or(false),
    }
}

/// kind@position of every subquery predicate in the outermost WHERE clause.
/// position: conj = reached through AND only (the subquery-to-join transformation looks there),
/// or = through AND/OR, not = below a NOT. `+dfrom` = the subquery reads a derived table.
fn subq_tags(q: &Q, n: &Names) -> String {
    fn walk(e: &E, pos: &'static str, n: &Names, out: &mut BTreeSet<String>) {
        let inner = |sq: &Q| -> (bool, &'static str) {
            (sq.wh.as_ref().map(|w| refs_outer(w, n)).unwrap_or(false), if matches!(sq.from, F::D { .. }) { "+dfrom" } else { "" })
        };
        match e {
            E::And(a, b) => {
                walk(a, pos, n, out);
                walk(b, pos, n, out)
            }
            E::Or(a, b) => {
                let p = if pos == "conj" { "or" } else { pos };
                walk(a, p, n, out);
                walk(b, p, n, out)
            }
            E::Not(a) => walk(a, "not", n, out),
            E::IsNull(a, _) => walk(a, "not", n, out),
            E::Cmp(_, a, b) => {
                walk(a, "not", n, out);
                walk(b, "not", n, out)
            }
            E::InSub(_, sq, neg) => {
                let (corr, d) = inner(sq);
                out.insert(format!("{}{}{}@{}", if *neg { "not_in" } else { "in" }, if corr { "_corr" } else { "" }, d, pos));
            }
            E::Exists(sq, neg) => {
                let (corr, d) = inner(sq);
                out.insert(format!("{}{}{}@{}", if *neg { "not_exists" } else { "exists" }, if corr { "_corr" } else { "" }, d, pos));
            }
            E::Quant(_, all, _, sq) => {
                let (corr, d) = inner(sq);
                out.insert(format!("{}{}{}@{}", if *all { "all" } else { "any" }, if corr { "_corr" } else { "" }, d, pos));
            }
            E::Col(..) | E::Int(_) | E::Null => {}
        }
    }
    let mut out = BTreeSet::new();
    if let Some(w) = &q.wh {
        walk(w, "conj", n, &mut out);
    }
    if out.is_empty() {
        "-".into()
    } else {
        out.into_iter().collect::<Vec<_>>().join(",")
    }
}

struct Cat<'a> {
    n: &'a Names,
    thorough: bool,
    out: Vec<Member>,
}

/// formulations left to the thorough tier (each has a close sibling that stays in the quick tier)
const QUICK_SKIP: &[&str] = &["cross_ut", "der_cols_ut", "star_join", "on0_wh1_ut", "flip_join", "join_on", "comma_join_ut", "exists_from_derived", "not_not_exists", "not_in_distinct", "not_exists_star_flip", "der_t_wut", "join_then_comma"];

impl<'a> Cat<'a> {
    fn add(&mut self, family: &'static str, class: &str, member: &str, q: Q) {
        let n = self.n;
        let mut foot = [false; 4];
        mentions_q(&q, &n.t.p, &mut foot[0], true);
        mentions_q(&q, &n.u.p, &mut foot[1], true);
        foot[2] = uses_table_q(&q, &n.w.name);
        mentions_q(&q, &n.w.p, &mut foot[3], true);
        if n.self_join {
            // u is t: both payload flags describe the same physical column
            foot[0] = foot[0] || foot[1];
            foot[1] = false;
        }
        let sql = mini::render_q(&q);
        if !self.thorough && QUICK_SKIP.contains(&member) {
            return;
        }
        let shape = shape_of(&q);
        let stmt = match exec::parse(&sql) {
            Ok(vibesql_ast::Statement::Select(s)) => Some(s),
            _ => None,
        };
        let subq = subq_tags(&q, n);
        self.out.push(Member { family, class: class.into(), member: member.into(), q, sql, foot, shape, stmt, subq });
    }
}

/// All members for one naming variant. `thorough` adds the wider menus.
pub fn catalogue(n: &Names, thorough: bool) -> Vec<Member> {
    let mut c = Cat { n, thorough, out: vec![] };
    let (t, u, w) = (&n.t, &n.u, &n.w);
    let tu_cols: Vec<E> = [t.cols(), u.cols()].concat();

    // ---------------------------------------------------------------- two-table joins
    // condition = AND of parts
    let mut conds: Vec<(&str, Vec<E>)> = vec![
        ("eq", vec![eq(t.k(), u.k())]),
        ("eq2", vec![eq(t.k(), u.k()), eq(t.p(), u.p())]),
        ("lt", vec![cmp("<", t.k(), u.k())]),
        ("eq_lt", vec![eq(t.k(), u.k()), cmp("<", t.p(), u.p())]),
        ("eq_loc", vec![eq(t.k(), u.k()), eq(u.p(), E::Int(1))]),
        ("eq_tnull", vec![eq(t.k(), u.k()), is_null(t.p())]),
        ("or_common", vec![or(and(eq(t.k(), u.k()), eq(t.p(), E::Int(1))), and(eq(t.k(), u.k()), eq(u.p(), E::Int(0))))]),
        ("loc", vec![eq(t.k(), E::Int(1))]),
        ("none", vec![]),
    ];
    if thorough {
        conds.push(("or", vec![or(eq(t.k(), u.k()), eq(t.p(), u.p()))]));
        conds.push(("eq_or", vec![eq(t.k(), u.k()), or(eq(t.p(), E::Int(1)), eq(u.p(), E::Int(1)))]));
        conds.push(("neq", vec![cmp("<>", t.k(), u.k())]));
        conds.push(("eq_kp", vec![eq(t.k(), u.p())]));
        conds.push(("eq_loc_t", vec![eq(t.k(), u.k()), cmp(">", t.p(), E::Int(0))]));
        conds.push(("eq_unull", vec![eq(t.k(), u.k()), is_null(u.p())]));
        conds.push(("ge", vec![cmp(">=", t.k(), u.k())]));
        conds.push(("eq3", vec![eq(t.k(), u.k()), eq(t.p(), u.p()), eq(t.k(), E::Int(1))]));
    }
    if n.id == "innerbare" || n.id == "bothbare" {
        conds.clear();
    }
    for (cid, parts) in &conds {
        let class = format!("join[{}]", cid);
        let full = and_all(parts.clone());
        let fam = "join2";
        c.add(fam, &class, "comma_tu", sel(tu_cols.clone(), j(JK::Comma, t.f(), u.f(), None), full.clone()));
        c.add(fam, &class, "comma_ut", sel(tu_cols.clone(), j(JK::Comma, u.f(), t.f(), None), full.clone()));
        c.add(fam, &class, "cross_tu", sel(tu_cols.clone(), j(JK::Cross, t.f(), u.f(), None), full.clone()));
        c.add(fam, &class, "cross_ut", sel(tu_cols.clone(), j(JK::Cross, u.f(), t.f(), None), full.clone()));
        c.add(fam, &class, "der_t", sel(tu_cols.clone(), j(JK::Comma, t.d(), u.f(), None), full.clone()));
        c.add(fam, &class, "der_u", sel(tu_cols.clone(), j(JK::Comma, t.f(), u.d(), None), full.clone()));
        c.add(fam, &class, "der_cols_ut", sel(tu_cols.clone(), j(JK::Comma, u.d_cols(), t.f(), None), full.clone()));
        c.add(fam, &class, "star_tu", Q { distinct: false, sel: Sel::Star, from: j(JK::Comma, t.f(), u.f(), None), wh: full.clone() });
        if let Some(fc) = &full {
            c.add(fam, &class, "join_tu", sel(tu_cols.clone(), j(JK::Inner, t.f(), u.f(), Some(fc.clone())), None));
            c.add(fam, &class, "join_ut", sel(tu_cols.clone(), j(JK::Inner, u.f(), t.f(), Some(fc.clone())), None));
            c.add(fam, &class, "flip_comma", sel(tu_cols.clone(), j(JK::Comma, t.f(), u.f(), None), Some(flip(fc))));
            c.add(fam, &class, "flip_join", sel(tu_cols.clone(), j(JK::Inner, t.f(), u.f(), Some(flip(fc))), None));
            c.add(fam, &class, "der_both_join", sel(tu_cols.clone(), j(JK::Inner, t.d(), u.d(), Some(fc.clone())), None));
            c.add(fam, &class, "star_join", Q { distinct: false, sel: Sel::Star, from: j(JK::Inner, t.f(), u.f(), Some(fc.clone())), wh: None });
        }
        if parts.len() >= 2 {
            // the conjuncts of the ON condition in reverse order (a filter written before the equi-join conjunct)
            let mut rev = parts.clone();
            rev.reverse();
            if let Some(rc) = and_all(rev) {
                c.add(fam, &class, "rev_join", sel(tu_cols.clone(), j(JK::Inner, t.f(), u.f(), Some(rc.clone())), None));
                c.add(fam, &class, "rev_join_ut", sel(tu_cols.clone(), j(JK::Inner, u.f(), t.f(), Some(rc.clone())), None));
                c.add(fam, &class, "rev_comma", sel(tu_cols.clone(), j(JK::Comma, t.f(), u.f(), None), Some(rc)));
            }
            let rest = and_all(parts[1..].to_vec());
            c.add(fam, &class, "on0_wh1", sel(tu_cols.clone(), j(JK::Inner, t.f(), u.f(), Some(parts[0].clone())), rest.clone()));
            c.add(fam, &class, "on1_wh0", sel(tu_cols.clone(), j(JK::Inner, t.f(), u.f(), rest.clone()), Some(parts[0].clone())));
            c.add(fam, &class, "on0_wh1_ut", sel(tu_cols.clone(), j(JK::Inner, u.f(), t.f(), Some(parts[0].clone())), rest.clone()));
        }
        if *cid == "eq" {
            c.add(fam, &class, "not_neq", sel(tu_cols.clone(), j(JK::Comma, t.f(), u.f(), None), Some(not(cmp("<>", t.k(), u.k())))));
            c.add(fam, &class, "eq_and_notnull", sel(tu_cols.clone(), j(JK::Comma, t.f(), u.f(), None), Some(and(eq(t.k(), u.k()), is_not_null(t.k())))));
        }
        // DISTINCT over a projection of both sides
        let dclass = format!("djoin[{}]", cid);
        let dcols = vec![t.k(), u.p()];
        let dq = |from: F, wh: Option<E>| Q { distinct: true, sel: Sel::Cols(dcols.clone()), from, wh };
        c.add(fam, &dclass, "comma_tu", dq(j(JK::Comma, t.f(), u.f(), None), full.clone()));
        c.add(fam, &dclass, "comma_ut", dq(j(JK::Comma, u.f(), t.f(), None), full.clone()));
        if let Some(fc) = &full {
            c.add(fam, &dclass, "join_tu", dq(j(JK::Inner, t.f(), u.f(), Some(fc.clone())), None));
        }
    }

    // ---------------------------------------------------------------- semi / anti joins
    // inner filter f, outer conjunct g, extra correlation h
    let innerbare = n.id == "innerbare" || n.id == "bothbare";
    let u = &n.u_in;
    let ti = &n.t_in;
    let fs: Vec<(&str, Option<E>)> = vec![
        ("-", None),
        ("q1", Some(eq(u.p(), E::Int(1)))),
        ("qnull", Some(is_null(u.p()))),
        ("kgt0", Some(cmp(">", u.k(), E::Int(0)))),
    ];
    let gs: Vec<(&str, Option<E>)> = vec![("-", None), ("p1", Some(eq(t.p(), E::Int(1)))), ("pnull", Some(is_null(t.p())))];
    let hs: Vec<(&str, Option<E>)> = vec![("-", None), ("corr", Some(eq(u.p(), ti.p())))];
    let mut combos: Vec<(usize, usize, usize)> = vec![(0, 0, 0), (1, 0, 0), (3, 0, 0), (0, 1, 0), (0, 0, 1)];
    if thorough {
        combos.extend([(1, 2, 0), (2, 0, 0), (0, 2, 0), (1, 1, 0), (0, 1, 1), (1, 0, 1), (2, 1, 0), (3, 1, 0)]);
    }
    let t_cols = t.cols();
    let one_zero = eq(E::Int(1), E::Int(0));
    for (fi, gi, hi) in combos {
        let (fid, f) = &fs[fi];
        let (gid, g) = &gs[gi];
        let (hid, h) = &hs[hi];
        let tag = format!("{},{},{}", fid, gid, hid);
        // inner WHERE of the IN form: f ∧ h ; of the EXISTS form: corr ∧ f ∧ h
        let inner_extra: Vec<E> = f.iter().cloned().chain(h.iter().cloned()).collect();
        let subq = |from: F, distinct: bool, extra_first: Vec<E>| Q {
            distinct,
            sel: Sel::Cols(vec![u.k()]),
            from,
            wh: and_all(extra_first.into_iter().chain(inner_extra.clone()).collect()),
        };
        let in_ = |neg: bool| E::InSub(Box::new(t.k()), Box::new(subq(u.f(), false, vec![])), neg);
        let in_distinct = |neg: bool| E::InSub(Box::new(t.k()), Box::new(subq(u.f(), true, vec![])), neg);
        let in_der = |neg: bool| E::InSub(Box::new(t.k()), Box::new(subq(u.d(), false, vec![])), neg);
        let ex = |neg: bool| {
            E::Exists(
                Box::new(Q { distinct: false, sel: Sel::One, from: u.f(), wh: and_all(std::iter::once(eq(u.k(), ti.k())).chain(inner_extra.clone()).collect()) }),
                neg,
            )
        };
        let ex_star_flip = |neg: bool| {
            E::Exists(
                Box::new(Q { distinct: false, sel: Sel::Star, from: u.f(), wh: and_all(inner_extra.clone().into_iter().chain(std::iter::once(eq(ti.k(), u.k()))).collect()) }),
                neg,
            )
        };
        let ex_der = |neg: bool| {
            E::Exists(
                Box::new(Q { distinct: false, sel: Sel::One, from: u.d(), wh: and_all(std::iter::once(eq(u.k(), ti.k())).chain(inner_extra.clone()).collect()) }),
                neg,
            )
        };
        let with_g = |s: E, left: bool| -> Option<E> {
            match g {
                None => Some(s),
                Some(ge) => Some(if left { and(ge.clone(), s) } else { and(s, ge.clone()) }),
            }
        };
        let fam = "semi";
        // ------------------------------------------------ semi
        {
            let class = format!("semi[{}]", tag);
            let mut forms: Vec<(&str, E)> = vec![
                ("in", in_(false)),
                ("exists", ex(false)),
                ("exists_star_flip", ex_star_flip(false)),
                ("in_distinct", in_distinct(false)),
                ("in_from_derived", in_der(false)),
                ("exists_from_derived", ex_der(false)),
                ("not_not_in", not(in_(true))),
                ("not_not_exists", not(ex(true))),
                ("in_or_false", or(in_(false), one_zero.clone())),
                ("exists_or_false", or(ex(false), one_zero.clone())),
                ("eq_any", E::Quant("=", false, Box::new(t.k()), Box::new(subq(u.f(), false, vec![])))),
            ];
            if thorough {
                forms.push(("false_or_in", or(one_zero.clone(), in_(false))));
                forms.push(("in_and_true", and(in_(false), eq(E::Int(1), E::Int(1)))));
            }
            for (mid, s) in &forms {
                c.add(fam, &class, &format!("{}{}", mid, if g.is_some() { "_gR" } else { "" }), sel(t_cols.clone(), t.f(), with_g(s.clone(), false)));
                if g.is_some() {
                    c.add(fam, &class, &format!("{}_gL", mid), sel(t_cols.clone(), t.f(), with_g(s.clone(), true)));
                }
            }
            for (mid, s) in forms.iter().take(2) {
                c.add(fam, &class, &format!("{}_outer_derived", mid), sel(t_cols.clone(), t.d(), with_g(s.clone(), false)));
                c.add(fam, &class, &format!("{}_star", mid), Q { distinct: false, sel: Sel::Star, from: t.f(), wh: with_g(s.clone(), false) });
            }
            // DISTINCT semi join as DISTINCT inner join
            let dclass = format!("dsemi[{}]", tag);
            let dq = |from: F, wh: Option<E>| Q { distinct: true, sel: Sel::Cols(t_cols.clone()), from, wh };
            c.add(fam, &dclass, "in", dq(t.f(), with_g(in_(false), false)));
            c.add(fam, &dclass, "exists", dq(t.f(), with_g(ex(false), false)));
            if !innerbare {
                let jc: Vec<E> = std::iter::once(eq(t.k(), u.k())).chain(inner_extra.clone()).chain(g.iter().cloned()).collect();
                c.add(fam, &dclass, "comma_join", dq(j(JK::Comma, t.f(), u.f(), None), and_all(jc.clone())));
                c.add(fam, &dclass, "join_on", dq(j(JK::Inner, t.f(), u.f(), and_all(jc.clone())), None));
                c.add(fam, &dclass, "comma_join_ut", dq(j(JK::Comma, u.f(), t.f(), None), and_all(jc.clone())));
            }
        }
        // ------------------------------------------------ anti, NOT IN meaning
        {
            let class = format!("antiin[{}]", tag);
            let nullaware = E::Exists(
                Box::new(Q {
                    distinct: false,
                    sel: Sel::One,
                    from: u.f(),
                    wh: and_all(std::iter::once(or(or(eq(u.k(), ti.k()), is_null(u.k())), is_null(ti.k()))).chain(inner_extra.clone()).collect()),
                }),
                true,
            );
            let mut forms: Vec<(&str, E)> = vec![
                ("not_in", in_(true)),
                ("not_exists_nullaware", nullaware),
                ("not_paren_in", not(in_(false))),
                ("not_in_distinct", in_distinct(true)),
                ("not_in_from_derived", in_der(true)),
                ("not_in_or_false", or(in_(true), one_zero.clone())),
                ("neq_all", E::Quant("<>", true, Box::new(t.k()), Box::new(subq(u.f(), false, vec![])))),
            ];
            if thorough {
                forms.push(("false_or_not_in", or(one_zero.clone(), in_(true))));
            }
            for (mid, s) in &forms {
                c.add(fam, &class, &format!("{}{}", mid, if g.is_some() { "_gR" } else { "" }), sel(t_cols.clone(), t.f(), with_g(s.clone(), false)));
                if g.is_some() {
                    c.add(fam, &class, &format!("{}_gL", mid), sel(t_cols.clone(), t.f(), with_g(s.clone(), true)));
                }
            }
            for (mid, s) in forms.iter().take(2) {
                c.add(fam, &class, &format!("{}_outer_derived", mid), sel(t_cols.clone(), t.d(), with_g(s.clone(), false)));
            }
        }
        // ------------------------------------------------ anti, NOT EXISTS meaning
        {
            let class = format!("antiex[{}]", tag);
            let notnull_in = or(is_null(t.k()), E::InSub(Box::new(t.k()), Box::new(subq(u.f(), false, vec![is_not_null(u.k())])), true));
            let mut forms: Vec<(&str, E)> = vec![
                ("not_exists", ex(true)),
                ("isnull_or_not_in_notnull", notnull_in),
                ("not_paren_exists", not(ex(false))),
                ("not_exists_star_flip", ex_star_flip(true)),
                ("not_exists_from_derived", ex_der(true)),
                ("not_exists_or_false", or(ex(true), one_zero.clone())),
            ];
            if thorough {
                forms.push(("false_or_not_exists", or(one_zero.clone(), ex(true))));
            }
            for (mid, s) in &forms {
                c.add(fam, &class, &format!("{}{}", mid, if g.is_some() { "_gR" } else { "" }), sel(t_cols.clone(), t.f(), with_g(s.clone(), false)));
                if g.is_some() {
                    c.add(fam, &class, &format!("{}_gL", mid), sel(t_cols.clone(), t.f(), with_g(s.clone(), true)));
                }
            }
            for (mid, s) in forms.iter().take(2) {
                c.add(fam, &class, &format!("{}_outer_derived", mid), sel(t_cols.clone(), t.d(), with_g(s.clone(), false)));
            }
        }
    }

    // ---------------------------------------------------------------- aggregate subqueries
    // (an aggregate query without GROUP BY has exactly one row: not a semi join on its WHERE clause)
    {
        let fam = "semi";
        let sub = |sel: Sel, wh: Option<E>| Box::new(Q { distinct: false, sel, from: u.f(), wh });
        let ex_eq = |neg: bool| E::Exists(sub(Sel::One, Some(eq(u.k(), ti.k()))), neg);
        let ex_gt = |neg: bool| E::Exists(sub(Sel::One, Some(cmp(">", u.k(), ti.k()))), neg);
        let is_max = and(ex_eq(false), ex_gt(true));
        let in_max = |neg: bool| E::InSub(Box::new(t.k()), sub(Sel::Max(u.k()), None), neg);
        c.add(fam, "aggsub[in_max]", "in_max", sel(t_cols.clone(), t.f(), Some(in_max(false))));
        c.add(fam, "aggsub[in_max]", "exists_eq_and_no_greater", sel(t_cols.clone(), t.f(), Some(is_max.clone())));
        c.add(fam, "aggsub[in_max]", "eq_any_max", sel(t_cols.clone(), t.f(), Some(E::Quant("=", false, Box::new(t.k()), sub(Sel::Max(u.k()), None)))));
        let some_key = E::Exists(sub(Sel::One, Some(is_not_null(u.k()))), false);
        c.add(fam, "aggsub[not_in_max]", "not_in_max", sel(t_cols.clone(), t.f(), Some(in_max(true))));
        c.add(fam, "aggsub[not_in_max]", "notnull_and_not_is_max", sel(t_cols.clone(), t.f(), Some(and(and(is_not_null(t.k()), some_key), not(is_max.clone())))));
        let ex_count = |neg: bool| E::Exists(sub(Sel::CountStar, Some(eq(u.k(), ti.k()))), neg);
        c.add(fam, "aggsub[exists_count]", "exists_count", sel(t_cols.clone(), t.f(), Some(ex_count(false))));
        c.add(fam, "aggsub[exists_count]", "always_true", sel(t_cols.clone(), t.f(), Some(eq(E::Int(1), E::Int(1)))));
        c.add(fam, "aggsub[exists_count]", "exists_max", sel(t_cols.clone(), t.f(), Some(E::Exists(sub(Sel::Max(u.k()), Some(eq(u.k(), ti.k()))), false))));
        c.add(fam, "aggsub[not_exists_count]", "not_exists_count", sel(t_cols.clone(), t.f(), Some(ex_count(true))));
        c.add(fam, "aggsub[not_exists_count]", "always_false", sel(t_cols.clone(), t.f(), Some(one_zero.clone())));
    }

    // ---------------------------------------------------------------- three tables
    let u = &n.u;
    if !n.self_join && !innerbare {
        let tuw_cols: Vec<E> = [t.cols(), u.cols(), w.cols()].concat();
        // parts tagged with the pair of tables they connect: 0 = t-u, 1 = involves w
        let mut conds3: Vec<(&str, Vec<(u8, E)>)> = vec![
            ("chain", vec![(0, eq(t.k(), u.k())), (1, eq(u.k(), w.k()))]),
            ("star", vec![(0, eq(t.k(), u.k())), (1, eq(t.p(), w.k()))]),
            ("one_cross", vec![(0, eq(t.k(), u.k()))]),
            ("eq_lt", vec![(0, eq(t.k(), u.k())), (1, cmp("<", u.p(), w.k()))]),
            ("eq_or3", vec![(0, eq(t.k(), u.k())), (1, or(eq(u.p(), w.k()), eq(t.p(), w.k())))]),
        ];
        if thorough {
            conds3.push(("chain_loc", vec![(0, eq(t.k(), u.k())), (1, eq(u.k(), w.k())), (0, eq(t.p(), E::Int(1)))]));
            conds3.push(("tri", vec![(0, eq(t.k(), u.k())), (1, eq(u.k(), w.k())), (1, eq(t.k(), w.k()))]));
            conds3.push(("cross3", vec![]));
            conds3.push(("w_only", vec![(1, eq(t.k(), w.k()))]));
        }
        let items = [("t", t), ("u", u), ("w", w)];
        let perms: [[usize; 3]; 6] = [[0, 1, 2], [0, 2, 1], [1, 0, 2], [1, 2, 0], [2, 0, 1], [2, 1, 0]];
        for (cid, parts) in &conds3 {
            let class = format!("join3[{}]", cid);
            let fam = "join3";
            let full = and_all(parts.iter().map(|(_, e)| e.clone()).collect());
            for p in perms.iter() {
                let id: String = p.iter().map(|i| items[*i].0).collect::<Vec<_>>().join("");
                let from = j(JK::Comma, j(JK::Comma, items[p[0]].1.f(), items[p[1]].1.f(), None), items[p[2]].1.f(), None);
                c.add(fam, &class, &format!("comma_{}", id), sel(tuw_cols.clone(), from, full.clone()));
            }
            let cross = j(JK::Cross, j(JK::Cross, t.f(), u.f(), None), w.f(), None);
            c.add(fam, &class, "cross_tuw", sel(tuw_cols.clone(), cross, full.clone()));
            c.add(fam, &class, "star_tuw", Q { distinct: false, sel: Sel::Star, from: j(JK::Comma, j(JK::Comma, t.f(), u.f(), None), w.f(), None), wh: full.clone() });
            c.add(fam, &class, "der_u_tuw", sel(tuw_cols.clone(), j(JK::Comma, j(JK::Comma, t.f(), u.d(), None), w.f(), None), full.clone()));
            c.add(fam, &class, "der_t_wut", sel(tuw_cols.clone(), j(JK::Comma, j(JK::Comma, w.f(), u.f(), None), t.d(), None), full.clone()));
            let on_tu = and_all(parts.iter().filter(|(k, _)| *k == 0).map(|(_, e)| e.clone()).collect());
            let on_w = and_all(parts.iter().filter(|(k, _)| *k == 1).map(|(_, e)| e.clone()).collect());
            if let (Some(a), Some(b)) = (&on_tu, &on_w) {
                let chain = j(JK::Inner, j(JK::Inner, t.f(), u.f(), Some(a.clone())), w.f(), Some(b.clone()));
                c.add(fam, &class, "join_chain", sel(tuw_cols.clone(), chain, None));
                let mixed = j(JK::Comma, j(JK::Inner, t.f(), u.f(), Some(a.clone())), w.f(), None);
                c.add(fam, &class, "join_then_comma", sel(tuw_cols.clone(), mixed, Some(b.clone())));
            }
            if let Some(fc) = &full {
                c.add(fam, &class, "flip_comma_uwt", sel(tuw_cols.clone(), j(JK::Comma, j(JK::Comma, u.f(), w.f(), None), t.f(), None), Some(flip(fc))));
            }
        }
        // semi / anti join below a two-table outer query
        let tw_cols: Vec<E> = [t.cols(), vec![w.k()]].concat();
        let inq = |neg: bool| E::InSub(Box::new(t.k()), Box::new(Q { distinct: false, sel: Sel::Cols(vec![u.k()]), from: u.f(), wh: None }), neg);
        let exq = |neg: bool| E::Exists(Box::new(Q { distinct: false, sel: Sel::One, from: u.f(), wh: Some(eq(u.k(), t.k())) }), neg);
        let nullaware = E::Exists(
            Box::new(Q { distinct: false, sel: Sel::One, from: u.f(), wh: Some(or(or(eq(u.k(), t.k()), is_null(u.k())), is_null(t.k()))) }),
            true,
        );
        let groups: Vec<(&str, Vec<(&str, E)>)> = vec![
            ("semi3", vec![("in", inq(false)), ("exists", exq(false))]),
            ("antiin3", vec![("not_in", inq(true)), ("not_exists_nullaware", nullaware)]),
            ("antiex3", vec![("not_exists", exq(true)), ("not_paren_exists", not(exq(false)))]),
        ];
        for (class, forms) in &groups {
            for (mid, s) in forms {
                let jc = eq(t.k(), w.k());
                c.add("semi3", class, &format!("{}_comma_tw", mid), sel(tw_cols.clone(), j(JK::Comma, t.f(), w.f(), None), Some(and(jc.clone(), s.clone()))));
                c.add("semi3", class, &format!("{}_comma_wt_subfirst", mid), sel(tw_cols.clone(), j(JK::Comma, w.f(), t.f(), None), Some(and(s.clone(), jc.clone()))));
                c.add("semi3", class, &format!("{}_join_tw", mid), sel(tw_cols.clone(), j(JK::Inner, t.f(), w.f(), Some(jc.clone())), Some(s.clone())));
            }
        }
    }
    c.out
}

// =============================================================================================
// databases
// =============================================================================================

const DOM: [Val; 3] = [Val::Null, Val::Int(0), Val::Int(1)];

/// All row multisets of size ≤ n over k ∈ DOM × p ∈ (DOM if full else {0}), smallest first.
fn row_bags(n: usize, full: bool) -> Vec<Vec<Vec<Val>>> {
    let mut rows: Vec<Vec<Val>> = vec![];
    for k in DOM {
        if full {
            for p in DOM {
                rows.push(vec![k, p]);
            }
        } else {
            rows.push(vec![k, Val::Int(0)]);
        }
    }
    let mut out = vec![];
    for size in 0..=n {
        for ms in util::multisets(rows.len(), size) {
            out.push(ms.iter().map(|i| rows[*i].clone()).collect());
        }
    }
    out
}

fn lit(v: &Val) -> String {
    match v {
        Val::Null => "NULL".into(),
        Val::Int(i) => i.to_string(),
    }
}

/// SQL that builds the database for a schema (tables first, then rows, then indexes).
fn setup_sql(schema: &str, data: &[Vec<Vec<Val>>; 3], index: &str, n: &Names) -> Vec<String> {
    let sc = schema_cols(schema);
    let mut out = vec![];
    for (name, cols) in sc.iter() {
        // "inner_notnull": the inner join key is *declared* NOT NULL (an optimizer may drop its NULL
        // handling for such a column); only used on data without a NULL in that column
        let nn = if index == "inner_notnull" && *name == n.u.name.as_str() && cols[0] == n.u.k.as_str() { " NOT NULL" } else { "" };
        out.push(format!("CREATE TABLE {} ({} INT{}, {} INT)", name, cols[0], nn, cols[1]));
    }
    for (i, (name, _)) in sc.iter().enumerate() {
        if !data[i].is_empty() {
            let vals: Vec<String> = data[i].iter().map(|r| format!("({}, {})", lit(&r[0]), lit(&r[1]))).collect();
            out.push(format!("INSERT INTO {} VALUES {}", name, vals.join(", ")));
        }
    }
    let inner = (&n.u.name, &n.u.k);
    let outer = (&n.t.name, &n.t.k);
    let mut idx: Vec<(&String, &String)> = vec![];
    match index {
        "none" | "inner_notnull" => {}
        "inner_key" => idx.push(inner),
        "outer_key" => idx.push(outer),
        "both_keys" => {
            idx.push(inner);
            if outer != inner {
                idx.push(outer)
            }
        }
        other => panic!("unknown index variant {}", other),
    }
    for (k, (tn, cn)) in idx.iter().enumerate() {
        out.push(format!("CREATE INDEX ix{} ON {} ({})", k, tn, cn));
    }
    out
}

fn arbiter_db(schema: &str, data: &[Vec<Vec<Val>>; 3]) -> Db {
    let mut db = Db::new();
    for (i, (name, cols)) in schema_cols(schema).iter().enumerate() {
        db.insert(name.to_string(), Table { cols: cols.iter().map(|s| s.to_string()).collect(), rows: data[i].clone() });
    }
    db
}

fn build_engine(stmts: &[String]) -> Result<Database, String> {
    let mut db = Database::new();
    for s in stmts {
        let o = exec::exec(&mut db, s);
        if !o.is_ok() {
            return Err(format!("setup statement failed: {} => {}", s, o.brief()));
        }
    }
    Ok(db)
}

fn run_member(db: &Database, m: &Member) -> Out {
    match &m.stmt {
        Some(s) => exec::select_stmt(db, s),
        None => exec::select(db, &m.sql),
    }
}

fn to_nv(b: &[Vec<Val>]) -> Vec<Vec<NV>> {
    b.iter()
        .map(|r| {
            r.iter()
                .map(|v| match v {
                    Val::Null => NV::Null,
                    Val::Int(i) => NV::Int(*i as i128),
                })
                .collect()
        })
        .collect()
}

// =============================================================================================
// the run
// =============================================================================================

/// What is enumerated for one footprint group (a group = the classes whose conditions look at the
/// same payload columns; columns nobody looks at are held constant, which loses nothing).
#[derive(Clone, Debug)]
struct Scope {
    /// max rows of t, u, w
    rows: (usize, usize, usize),
    /// max total rows of a database
    total: usize,
    namings: Vec<&'static str>,
    indexes: Vec<&'static str>,
}

struct Bounds {
    thorough: bool,
    /// every naming any group uses (catalogues are built for these)
    namings: Vec<&'static str>,
    dev_rows: Option<(usize, usize, usize, usize)>,
}

fn bounds(tier: &str) -> Bounds {
    if tier == "thorough" {
        Bounds { thorough: true, namings: vec!["qual", "alias", "prefix", "self", "innerbare", "bothbare", "fkstyle"], dev_rows: None }
    } else {
        Bounds { thorough: false, namings: vec!["qual", "prefix", "bothbare"], dev_rows: None }
    }
}

impl Bounds {
    /// `weight` = number of payload columns the group's conditions look at.
    /// One engine query costs 0.2–5 ms (a zeroed 10 MB arena per SelectExecutor, i.e. per query and per
    /// correlated-subquery evaluation), so the scopes are chosen by the number of executions they cost.
    fn scope(&self, three: bool, weight: usize) -> Scope {
        let mut sc = if self.thorough {
            match (three, weight) {
                (false, 0) => Scope { rows: (3, 3, 0), total: 6, namings: vec!["qual", "alias", "prefix", "self", "innerbare", "bothbare"], indexes: vec!["none", "inner_key", "outer_key", "both_keys", "inner_notnull"] },
                (false, 1) => Scope { rows: (3, 3, 0), total: 3, namings: vec!["qual", "prefix", "self", "innerbare", "bothbare", "fkstyle"], indexes: vec!["none", "inner_key"] },
                (false, _) => Scope { rows: (2, 2, 0), total: 3, namings: vec!["qual", "fkstyle"], indexes: vec!["none", "inner_key"] },
                (true, 0) => Scope { rows: (2, 2, 2), total: 4, namings: vec!["qual", "alias", "prefix"], indexes: vec!["none", "inner_key", "both_keys", "inner_notnull"] },
                (true, 1) => Scope { rows: (2, 2, 2), total: 3, namings: vec!["qual", "prefix"], indexes: vec!["none", "inner_key"] },
                (true, _) => Scope { rows: (1, 1, 1), total: 3, namings: vec!["qual", "prefix"], indexes: vec!["none", "inner_key"] },
            }
        } else {
            match (three, weight) {
                (false, 0) => Scope { rows: (2, 2, 0), total: 3, namings: vec!["qual", "prefix", "bothbare"], indexes: vec!["none", "inner_key", "inner_notnull"] },
                (false, 1) => Scope { rows: (2, 2, 0), total: 2, namings: vec!["qual"], indexes: vec!["none", "inner_key"] },
                (false, _) => Scope { rows: (1, 1, 0), total: 2, namings: vec!["qual"], indexes: vec!["none", "inner_key"] },
                (true, 0) => Scope { rows: (2, 2, 1), total: 3, namings: vec!["qual"], indexes: vec!["none", "inner_key", "inner_notnull"] },
                (true, _) => Scope { rows: (1, 1, 1), total: 3, namings: vec!["qual"], indexes: vec!["inner_key"] },
            }
        };
        if let Some((a, b, c, t)) = self.dev_rows {
            sc.rows = (a, b, if three { c } else { 0 });
            sc.total = t;
        }
        sc
    }
}

#[derive(Default)]
struct Stats {
    t_arbiter: f64,
    t_build: f64,
    t_exec: f64,
    evaluations: u64,
    ok: u64,
    err: u64,
    panic: u64,
    nonempty_expected: u64,
    failing: u64,
    arbiter_evals: u64,
    outcomes: HashSet<u64>,
    err_members: BTreeMap<String, u64>,
    per_family: BTreeMap<&'static str, u64>,
}

struct Found {
    order: (usize, usize),
    sig: Vec<(&'static str, String)>,
    what: String,
    case: Value,
}

struct Work {
    group: usize,
    data: [Vec<Vec<Val>>; 3],
}

pub fn run(tier: &str) -> i32 {
    let mut rep = Report::new("C05", tier, "model_checking");
    let mut b = bounds(tier);
    if let Ok(v) = std::env::var("VERIF_C05_ROWS") {
        // development only: "nt,nu,nw,total"
        let p: Vec<usize> = v.split(',').filter_map(|x| x.parse().ok()).collect();
        if p.len() == 4 {
            b.dev_rows = Some((p[0], p[1], p[2], p[3]));
            rep.set("development_rows_override", json!(v));
        }
    }
    vibesql_types::verif::reset();

    // catalogue per naming, grouped by footprint
    let fam_filter: Option<Vec<String>> = std::env::var("VERIF_C05_FAMILY").ok().map(|s| s.split(',').map(|x| x.to_string()).collect());
    let cats: Vec<(Names, Vec<Member>)> = b
        .namings
        .iter()
        .map(|id| {
            let n = names(id);
            let mut c = catalogue(&n, b.thorough);
            if let Some(ff) = &fam_filter {
                c.retain(|m| ff.iter().any(|f| f == m.family));
            }
            (n, c)
        })
        .collect();
    if fam_filter.is_some() {
        rep.set("development_filter", json!(fam_filter));
    }

    // sanity: rendered SQL must be unique within a naming's class (otherwise a "member" adds nothing)
    let mut classes: BTreeSet<String> = BTreeSet::new();
    let mut n_members = 0usize;
    for (_, cat) in &cats {
        for m in cat {
            classes.insert(m.class.clone());
            n_members += 1;
        }
    }

    // footprint groups: key = (family is 3-table?, foot) -> per naming the member indices
    let mut group_keys: Vec<[bool; 4]> = vec![];
    for (_, cat) in &cats {
        for m in cat {
            if !group_keys.contains(&m.foot) {
                group_keys.push(m.foot);
            }
        }
    }
    group_keys.sort();
    let group_members: Vec<Vec<Vec<usize>>> = group_keys
        .iter()
        .map(|g| cats.iter().map(|(_, cat)| cat.iter().enumerate().filter(|(_, m)| m.foot == *g).map(|(i, _)| i).collect()).collect())
        .collect();

    // work items: group × database, smallest databases first within a group
    let mut work: Vec<Work> = vec![];
    let mut dbs_per_group: Vec<usize> = vec![];
    let scopes: Vec<Scope> = group_keys.iter().map(|g| b.scope(g[2], g[0] as usize + g[1] as usize + g[3] as usize)).collect();
    for (gi, g) in group_keys.iter().enumerate() {
        let three = g[2];
        let (nt, nu, nw) = scopes[gi].rows;
        let tb = row_bags(nt, g[0]);
        let ub = row_bags(nu, g[1]);
        let wb = if three { row_bags(nw, g[3]) } else { vec![vec![]] };
        let mut items: Vec<Work> = vec![];
        let cap = scopes[gi].total;
        for tr in &tb {
            for ur in &ub {
                for wr in &wb {
                    if tr.len() + ur.len() + wr.len() <= cap {
                        items.push(Work { group: gi, data: [tr.clone(), ur.clone(), wr.clone()] });
                    }
                }
            }
        }
        items.sort_by_key(|w| w.data[0].len() + w.data[1].len() + w.data[2].len());
        dbs_per_group.push(items.len());
        work.extend(items);
    }
    // interleave groups so that the global order is also "small databases first"
    work.sort_by_key(|w| w.data[0].len() + w.data[1].len() + w.data[2].len());

    if std::env::var("VERIF_C05_DRY").is_ok() {
        let mut total = 0usize;
        for (gi, g) in group_keys.iter().enumerate() {
            let per_db: usize = cats.iter().enumerate().filter(|(_, (n, _))| scopes[gi].namings.contains(&n.id)).map(|(ni, (n, _))| {
                let idx = if n.self_join { scopes[gi].indexes.iter().filter(|i| **i == "none" || **i == "inner_key").count() } else if !b.thorough && n.id != "qual" { 1 } else { scopes[gi].indexes.len() };
                group_members[gi][ni].len() * idx
            }).collect::<Vec<_>>().iter().sum();
            let fam: BTreeSet<&str> = cats[0].1.iter().filter(|m| m.foot == *g).map(|m| m.family).collect();
            println!("group {:?} families {:?} scope {:?}: {} dbs x {} member-executions per db = {}", g, fam, scopes[gi], dbs_per_group[gi], per_db, dbs_per_group[gi] * per_db);
            total += dbs_per_group[gi] * per_db;
        }
        println!("total planned executions (upper bound; self-join naming skips dbs with u rows): {}", total);
        return 0;
    }
    let stats = Mutex::new(Stats::default());
    let found: Mutex<HashMap<String, Found>> = Mutex::new(HashMap::new());
    let mach: Mutex<Vec<String>> = Mutex::new(vec![]);
    let samples: Mutex<Vec<Value>> = Mutex::new(vec![]);
    let deadline_hit = AtomicU64::new(0);
    let budget_s: f64 = std::env::var("VERIF_C05_BUDGET_S").ok().and_then(|s| s.parse().ok()).unwrap_or(if b.thorough { 840.0 } else { 1e9 });
    let start = std::time::Instant::now();
    let done_items = AtomicU64::new(0);

    util::par_map(&work, |wi, w| {
        if start.elapsed().as_secs_f64() > budget_s {
            deadline_hit.fetch_add(1, Ordering::Relaxed);
            return;
        }
        let mut st = Stats::default();
        let mut item_cut = false;
        for (ni, (n, cat)) in cats.iter().enumerate() {
            let members = &group_members[w.group][ni];
            let scope = &scopes[w.group];
            if members.is_empty() || !scope.namings.contains(&n.id) {
                continue;
            }
            if n.self_join && !w.data[1].is_empty() {
                continue; // u is t: the u rows do not exist in this variant
            }
            let t0 = std::time::Instant::now();
            let adb = arbiter_db(n.schema, &w.data);
            // expected bags by the definitional evaluator, and agreement within each class
            let mut expected: Vec<Option<Vec<Vec<NV>>>> = Vec::with_capacity(members.len());
            let mut class_expect: HashMap<&str, (usize, Vec<Vec<Val>>)> = HashMap::new();
            for &mi in members {
                let m = &cat[mi];
                st.arbiter_evals += 1;
                match mini::bag_of(&adb, &m.q) {
                    Ok(bag) => {
                        match class_expect.get(m.class.as_str()) {
                            None => {
                                class_expect.insert(m.class.as_str(), (mi, bag.clone()));
                            }
                            Some((first, fb)) => {
                                if *fb != bag {
                                    let mut me = mach.lock().unwrap();
                                    if me.len() < 5 {
                                        me.push(format!(
                                            "the definitional evaluator disagrees inside class {} (naming {}): `{}` = {} but `{}` = {} on data {:?}",
                                            m.class, n.id, cat[*first].sql, mini::fmt_bag(fb), m.sql, mini::fmt_bag(&bag), w.data
                                        ));
                                    }
                                }
                            }
                        }
                        expected.push(Some(to_nv(&bag)));
                    }
                    Err(e) => {
                        let mut me = mach.lock().unwrap();
                        if me.len() < 5 {
                            me.push(format!("definitional evaluator undefined on `{}` (naming {}): {}", m.sql, n.id, e));
                        }
                        expected.push(None);
                    }
                }
            }
            st.t_arbiter += t0.elapsed().as_secs_f64();
            for (xi, index) in scope.indexes.iter().enumerate() {
                if n.self_join && (*index == "outer_key" || *index == "both_keys") {
                    continue; // identical to inner_key
                }
                if !b.thorough && n.id != "qual" && *index != "inner_key" {
                    continue; // quick tier: the other namings run on the indexed database only
                }
                if *index == "inner_notnull" && (n.id != "qual" || n.self_join || w.data[1].iter().any(|r| matches!(r[0], Val::Null))) {
                    continue; // declared NOT NULL: only where the inner key column holds no NULL
                }
                if start.elapsed().as_secs_f64() > budget_s {
                    item_cut = true;
                    break;
                }
                let t1 = std::time::Instant::now();
                let stmts = setup_sql(n.schema, &w.data, index, n);
                let built = build_engine(&stmts);
                st.t_build += t1.elapsed().as_secs_f64();
                let t2 = std::time::Instant::now();
                let db = match built {
                    Ok(d) => d,
                    Err(e) => {
                        let mut me = mach.lock().unwrap();
                        if me.len() < 5 {
                            me.push(e);
                        }
                        continue;
                    }
                };
                for (pos, &mi) in members.iter().enumerate() {
                    let m = &cat[mi];
                    let Some(exp) = &expected[pos] else { continue };
                    let out = run_member(&db, m);
                    st.evaluations += 1;
                    *st.per_family.entry(m.family).or_default() += 1;
                    if !exp.is_empty() {
                        st.nonempty_expected += 1;
                    }
                    let (bad, kind, got) = match &out {
                        Out::Rows(r) => {
                            st.ok += 1;
                            let g = val::bag(r);
                            st.outcomes.insert(hash_bag(&g));
                            (g != *exp, "wrong_rows", val::fmt_bag(&g))
                        }
                        Out::Err(_, msg) => {
                            st.err += 1;
                            *st.err_members.entry(format!("{}/{}/{}", n.id, m.class, m.member)).or_default() += 1;
                            let _ = msg;
                            (false, "err", String::new())
                        }
                        Out::Panic(p) => {
                            st.panic += 1;
                            (true, "panic", format!("PANIC {}", util::trunc(p, 120)))
                        }
                        other => (true, "not_rows", other.brief()),
                    };
                    if bad {
                        st.failing += 1;
                        let sig: Vec<(&'static str, String)> = vec![
                            ("kind", kind.to_string()),
                            ("class", m.class.clone()),
                            ("member", m.member.clone()),
                            ("naming", n.id.to_string()),
                            ("index", index.to_string()),
                            ("shape", m.shape.clone()),
                            ("subq", m.subq.clone()),
                        ];
                        let key = sig.iter().map(|(k, v)| format!("{}={}", k, v)).collect::<Vec<_>>().join(";");
                        let order = (wi, ni * 16 + xi);
                        let mut f = found.lock().unwrap();
                        let better = match f.get(&key) {
                            None => true,
                            Some(old) => order < old.order,
                        };
                        if better {
                            // re-execute twice from scratch (R3)
                            let mut obs = vec![];
                            for _ in 0..2 {
                                match build_engine(&stmts) {
                                    Ok(d2) => obs.push(match exec::select(&d2, &m.sql) {
                                        Out::Rows(r) => val::fmt_bag(&val::bag(&r)),
                                        Out::Panic(p) => format!("PANIC {}", util::trunc(&p, 120)),
                                        o => o.brief(),
                                    }),
                                    Err(e) => obs.push(e),
                                }
                            }
                            if obs.iter().any(|o| *o != got) {
                                let mut me = mach.lock().unwrap();
                                if me.len() < 5 {
                                    me.push(format!("observation not reproducible for `{}`: first {} then {:?}", m.sql, got, obs));
                                }
                            } else {
                                let class_sql: BTreeMap<String, String> = cat.iter().filter(|x| x.class == m.class).map(|x| (x.member.clone(), x.sql.clone())).collect();
                                let expected_json: Vec<Vec<Value>> = exp.iter().map(|r| r.iter().map(nv_json).collect()).collect();
                                let case = json!({
                                    "setup": stmts,
                                    "query": m.sql,
                                    "expected_bag": expected_json,
                                    "class": m.class,
                                    "class_members": class_sql,
                                    "naming": n.id,
                                    "index": index,
                                });
                                let what = format!(
                                    "`{}` returned {} but the definitional nested-loop evaluation (and every correct member of class {}) gives {}; data t={} u={} w={}",
                                    m.sql,
                                    got,
                                    m.class,
                                    val::fmt_bag(exp),
                                    mini::fmt_bag(&w.data[0]),
                                    mini::fmt_bag(&w.data[1]),
                                    mini::fmt_bag(&w.data[2]),
                                );
                                f.insert(key, Found { order, sig, what, case });
                            }
                        }
                    }
                }
                st.t_exec += t2.elapsed().as_secs_f64();
            }
        }
        // a few samples of what a case looks like
        if wi % 997 == 3 {
            let mut s = samples.lock().unwrap();
            if s.len() < 6 {
                let (n, cat) = &cats[0];
                if let Some(&mi) = group_members[w.group][0].first() {
                    s.push(json!({"setup": setup_sql(n.schema, &w.data, scopes[w.group].indexes[scopes[w.group].indexes.len() - 1], n), "query": cat[mi].sql, "class": cat[mi].class}));
                }
            }
        }
        if item_cut {
            deadline_hit.fetch_add(1, Ordering::Relaxed);
        } else {
            done_items.fetch_add(1, Ordering::Relaxed);
        }
        let mut g = stats.lock().unwrap();
        g.evaluations += st.evaluations;
        g.ok += st.ok;
        g.err += st.err;
        g.panic += st.panic;
        g.nonempty_expected += st.nonempty_expected;
        g.failing += st.failing;
        g.arbiter_evals += st.arbiter_evals;
        g.t_arbiter += st.t_arbiter;
        g.t_build += st.t_build;
        g.t_exec += st.t_exec;
        let d = done_items.load(Ordering::Relaxed);
        if d % 2000 == 0 && std::env::var("VERIF_PROGRESS").is_ok() {
            eprintln!("  .. {} of {} items, {} executions, {:.0}s", d, work.len(), g.evaluations, start.elapsed().as_secs_f64());
        }
        g.outcomes.extend(st.outcomes);
        for (k, v) in st.err_members {
            *g.err_members.entry(k).or_default() += v;
        }
        for (k, v) in st.per_family {
            *g.per_family.entry(k).or_default() += v;
        }
    });

    let st = stats.into_inner().unwrap();
    let capped = deadline_hit.load(Ordering::Relaxed);
    let (reach, _) = vcore::report::reach_json(&["join_reorder", "subquery_to_join", "in_subquery_index", "index_scan"]);

    // which mechanism each formulation steers through: one sequential pass over one fixed database
    let per_member_reach = reach_attribution(&cats, &b);

    for m in mach.into_inner().unwrap() {
        rep.machinery_error(m);
    }
    let mut fv: Vec<Found> = found.into_inner().unwrap().into_values().collect();
    fv.sort_by_key(|f| f.order);
    let n_sig = fv.len();
    for f in fv {
        let sig: Vec<(&str, String)> = f.sig.iter().map(|(k, v)| (*k, v.clone())).collect();
        rep.violation(&sig, f.what, f.case);
    }
    // total_failing_cases counts signatures above; record the real number of failing executions too
    rep.set("failing_executions", json!(st.failing));
    rep.set("failing_signatures", json!(n_sig));
    rep.set("evaluations", json!(st.evaluations));
    rep.set("distinct_nontrivial", json!(st.nonempty_expected));
    rep.set(
        "rule",
        json!("every (database, naming, index variant, class member) of the stated bounds is executed once; all are distinct by construction; a case is non-trivial when the definitional evaluator's expected bag is non-empty"),
    );
    rep.set("states", json!(work.len()));
    rep.set("transitions", json!(st.evaluations));
    rep.set("traces_validated_against_impl", json!(st.evaluations));
    rep.set("exhaustive", json!(capped == 0));
    if capped > 0 {
        rep.set("capped", json!(format!("time budget of {} s reached: {} of {} (group,database) items were not run or not completed; items are dispatched in order of database size, so what was covered is a prefix of that order (up to the threads in flight)", budget_s, capped, work.len())));
    }
    rep.set("databases_group_items", json!(work.len()));
    rep.set("items_completed", json!(done_items.load(Ordering::Relaxed)));
    rep.set("bounds", json!({"domain": ["NULL", 0, 1], "per_group": group_keys.iter().zip(scopes.iter()).zip(dbs_per_group.iter()).map(|((g, sc), n)| json!({
        "conditions_look_at": {"t.p": g[0], "u.p": g[1], "w": g[2], "w.p": g[3]},
        "max_rows_t_u_w": [sc.rows.0, sc.rows.1, sc.rows.2], "max_total_rows": sc.total, "namings": sc.namings, "indexes": sc.indexes, "databases": n})).collect::<Vec<_>>()}));
    rep.set("classes", json!(classes.len()));
    rep.set("members_all_namings", json!(n_members));
    rep.set("outcome_classes", json!({"ok": st.ok, "err": st.err, "panic": st.panic}));
    rep.set("distinct_result_bags", json!(st.outcomes.len()));
    rep.set("arbiter_evaluations", json!(st.arbiter_evals));
    rep.set("cpu_seconds", json!({"arbiter": st.t_arbiter, "build_databases": st.t_build, "engine_queries": st.t_exec}));
    rep.set("executions_per_family", json!(st.per_family));
    rep.set("members_rejected_by_engine", json!(st.err_members));
    rep.set("reach", reach);
    rep.set("reach_by_formulation", per_member_reach.0);
    rep.set("vacuous_mechanisms", per_member_reach.1);
    rep.set("samples", json!(samples.into_inner().unwrap()));
    rep.assume("the definitional evaluator in harness/meta/src/mini.rs is the meaning of the query families (nested loops, three-valued logic by truth table); it is cross-checked on every database by requiring that it gives the same bag for all members of a class");
    rep.assume("a member the engine rejects with an error is counted (members_rejected_by_engine) but is not a violation: the property speaks about results");
    println!(
        "C05 {}: {} (group,db) items, {} executions ({} ok / {} err / {} panic), {} non-trivial, {} distinct result bags, {} classes, {} members, failing executions {} in {} signatures",
        tier,
        work.len(),
        st.evaluations,
        st.ok,
        st.err,
        st.panic,
        st.nonempty_expected,
        st.outcomes.len(),
        classes.len(),
        n_members,
        st.failing,
        n_sig
    );
    if !st.err_members.is_empty() {
        println!("  members the engine rejects (not violations): {:?}", st.err_members.iter().take(8).collect::<Vec<_>>());
    }
    rep.finish()
}

fn hash_bag(b: &[Vec<NV>]) -> u64 {
    use std::hash::{Hash, Hasher};
    #[allow(deprecated)]
    let mut h = std::hash::SipHasher::new_with_keys(7, 11);
    b.hash(&mut h);
    h.finish()
}

fn nv_json(v: &NV) -> Value {
    match v {
        NV::Null => Value::Null,
        NV::Int(i) => json!(*i as i64),
        other => json!(val::fmt_nv(other)),
    }
}

/// Sequential pass: for every formulation (class member id) which reach counters move when it is
/// executed on one fixed database with an index on the inner key. Returns (map, expected-but-never).
fn reach_attribution(cats: &[(Names, Vec<Member>)], b: &Bounds) -> (Value, Value) {
    let data: [Vec<Vec<Val>>; 3] = [
        vec![vec![Val::Null, Val::Int(0)], vec![Val::Int(1), Val::Int(1)]],
        vec![vec![Val::Int(1), Val::Int(1)], vec![Val::Null, Val::Int(0)]],
        vec![vec![Val::Int(1), Val::Int(0)]],
    ];
    let mut by_site: BTreeMap<String, BTreeSet<String>> = BTreeMap::new();
    let mut totals: BTreeMap<String, u64> = BTreeMap::new();
    for (n, cat) in cats {
        let _ = b;
        let idx = "inner_key";
        let Ok(db) = build_engine(&setup_sql(n.schema, &data, idx, n)) else { continue };
        for m in cat {
            let before = vibesql_types::verif::snapshot();
            let _ = exec::select(&db, &m.sql);
            let after = vibesql_types::verif::snapshot();
            for ((site, a), (_, bb)) in after.iter().zip(before.iter()) {
                if a > bb {
                    by_site.entry(site.to_string()).or_default().insert(format!("{}:{}", m.class.split('[').next().unwrap_or(""), m.member));
                    *totals.entry(site.to_string()).or_default() += 1;
                }
            }
        }
    }
    let mut out = serde_json::Map::new();
    for (site, ms) in &by_site {
        out.insert(site.clone(), json!({"formulations": ms.len(), "member_executions": totals[site], "examples": ms.iter().take(12).collect::<Vec<_>>()}));
    }
    let expected = ["join_reorder", "subquery_to_join", "in_subquery_index", "index_scan"];
    let vac: Vec<&str> = expected.iter().filter(|s| !by_site.contains_key(**s)).cloned().collect();
    if !vac.is_empty() {
        println!("  WARNING: mechanisms never reached by any formulation: {:?}", vac);
    }
    (Value::Object(out), json!(vac))
}

// =============================================================================================
// replay
// =============================================================================================

pub fn replay(case: &Value) -> i32 {
    let setup: Vec<String> = case["setup"].as_array().map(|a| a.iter().filter_map(|s| s.as_str().map(|x| x.to_string())).collect()).unwrap_or_default();
    let query = case["query"].as_str().unwrap_or("");
    let expected: Vec<Vec<NV>> = case["expected_bag"]
        .as_array()
        .map(|rows| {
            rows.iter()
                .map(|r| r.as_array().map(|c| c.iter().map(|v| if v.is_null() { NV::Null } else { NV::Int(v.as_i64().unwrap_or(0) as i128) }).collect()).unwrap_or_default())
                .collect()
        })
        .unwrap_or_default();
    let db = match build_engine(&setup) {
        Ok(d) => d,
        Err(e) => {
            eprintln!("MACHINERY-ERROR {}", e);
            return 2;
        }
    };
    for s in &setup {
        println!("  {}", s);
    }
    let out = exec::select(&db, query);
    println!("query:    {}", query);
    println!("observed: {}", out.brief());
    println!("expected: {} (definitional nested-loop evaluation)", val::fmt_bag(&expected));
    if let Some(ms) = case["class_members"].as_object() {
        println!("other members of class {}:", case["class"].as_str().unwrap_or("?"));
        for (k, v) in ms {
            if let Some(sql) = v.as_str() {
                if sql != query {
                    let o = exec::select(&db, sql);
                    let same = match &o {
                        Out::Rows(r) => val::bag(r) == expected,
                        _ => false,
                    };
                    println!("  [{}] {:<28} {} => {}", if same { "ok " } else { "BAD" }, k, sql, util::trunc(&o.brief(), 100));
                }
            }
        }
    }
    match &out {
        Out::Rows(r) if val::bag(r) == expected => {
            println!("replay: the query now returns the expected bag");
            0
        }
        _ => {
            println!("replay: violation reproduced");
            1
        }
    }
}

/// Development aid: `metacheck bench [threads]` — cost of one engine query, single- and multi-threaded.
pub fn bench(threads: usize) {
    let n = names("qual");
    let data: [Vec<Vec<Val>>; 3] = [
        vec![vec![Val::Null, Val::Int(0)], vec![Val::Int(1), Val::Int(1)]],
        vec![vec![Val::Int(1), Val::Int(1)], vec![Val::Null, Val::Int(0)]],
        vec![],
    ];
    let stmts = setup_sql(n.schema, &data, "inner_key", &n);
    let qs = [
        "SELECT t.a, t.b, u.a, u.d FROM t, u WHERE t.a = u.a",
        "SELECT t.a, t.b, u.a, u.d FROM t JOIN u ON t.a = u.a",
        "SELECT t.a, t.b FROM t WHERE t.a IN (SELECT u.a FROM u)",
        "SELECT t.a, t.b FROM t WHERE EXISTS (SELECT 1 FROM u WHERE u.a = t.a) OR 1 = 0",
        "SELECT t.a FROM t",
    ];
    for q in qs {
        let t0 = std::time::Instant::now();
        let iters = 3000usize;
        if threads == 0 {
            // on the main thread (main malloc arena)
            let db = build_engine(&stmts).unwrap();
            let stmt = match exec::parse(q) {
                Ok(vibesql_ast::Statement::Select(s)) => s,
                _ => panic!("parse"),
            };
            for _ in 0..iters {
                let _ = exec::select_stmt(&db, &stmt);
            }
        }
        std::thread::scope(|s| {
            for _ in 0..threads {
                s.spawn(|| {
                    let db = build_engine(&stmts).unwrap();
                    let stmt = match exec::parse(q) {
                        Ok(vibesql_ast::Statement::Select(s)) => s,
                        _ => panic!("parse"),
                    };
                    for _ in 0..iters {
                        let _ = exec::select_stmt(&db, &stmt);
                    }
                });
            }
        });
        let el = t0.elapsed().as_secs_f64();
        println!("{:>8.1} us/query wall per thread ({} threads)  {}", el * 1e6 / iters as f64, threads, q);
    }
}
