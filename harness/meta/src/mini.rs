//! A small query AST, its SQL rendering, and the *definitional* evaluator used as arbiter by C05.
//!
//! The evaluator is deliberately boring: FROM is a nested loop over the cross product of its items,
//! a join condition / WHERE keeps a row iff it evaluates to TRUE under three-valued logic, IN / EXISTS
//! re-evaluate their subquery for every outer row with the outer row in scope. No optimisation of any
//! kind, no hashing, no reordering. Values are NULL or integers; truth values are 1 / 0 / NULL.

use std::collections::BTreeMap;

#[derive(Clone, Copy, Debug, PartialEq, Eq, PartialOrd, Ord, Hash)]
pub enum Val {
    Null,
    Int(i64),
}

#[derive(Clone, Debug)]
pub enum E {
    /// optional qualifier (table name or alias), column name
    Col(Option<String>, String),
    Int(i64),
    Null,
    /// op in = <> < <= > >=
    Cmp(&'static str, Box<E>, Box<E>),
    And(Box<E>, Box<E>),
    Or(Box<E>, Box<E>),
    Not(Box<E>),
    /// (expr, negated): IS NULL / IS NOT NULL
    IsNull(Box<E>, bool),
    /// (lhs, subquery, negated)
    InSub(Box<E>, Box<Q>, bool),
    /// (subquery, negated)
    Exists(Box<Q>, bool),
    /// lhs op ANY|ALL (subquery): (op, is_all, lhs, subquery)
    Quant(&'static str, bool, Box<E>, Box<Q>),
}

#[derive(Clone, Debug)]
pub enum Sel {
    Star,
    /// `SELECT 1` (inside EXISTS)
    One,
    Cols(Vec<E>),
    /// `SELECT COUNT(*)` — an aggregate query without GROUP BY: exactly one row
    CountStar,
    /// `SELECT MAX(expr)` — exactly one row, NULL over an empty / all-NULL input
    Max(E),
}

#[derive(Clone, Copy, Debug, PartialEq, Eq)]
pub enum JK {
    Comma,
    Cross,
    Inner,
}

#[derive(Clone, Debug)]
pub enum F {
    T { name: String, alias: Option<String> },
    D { q: Box<Q>, alias: String },
    J { kind: JK, l: Box<F>, r: Box<F>, on: Option<E> },
}

#[derive(Clone, Debug)]
pub struct Q {
    pub distinct: bool,
    pub sel: Sel,
    pub from: F,
    pub wh: Option<E>,
}

// ---------------------------------------------------------------- constructors

pub fn col(q: Option<&str>, c: &str) -> E {
    E::Col(q.map(|s| s.to_string()), c.to_string())
}
pub fn cmp(op: &'static str, a: E, b: E) -> E {
    E::Cmp(op, Box::new(a), Box::new(b))
}
pub fn and(a: E, b: E) -> E {
    E::And(Box::new(a), Box::new(b))
}
pub fn or(a: E, b: E) -> E {
    E::Or(Box::new(a), Box::new(b))
}
pub fn not(a: E) -> E {
    E::Not(Box::new(a))
}
pub fn is_null(a: E) -> E {
    E::IsNull(Box::new(a), false)
}
pub fn is_not_null(a: E) -> E {
    E::IsNull(Box::new(a), true)
}
pub fn and_all(mut v: Vec<E>) -> Option<E> {
    if v.is_empty() {
        return None;
    }
    let mut acc = v.remove(0);
    for e in v {
        acc = and(acc, e);
    }
    Some(acc)
}

// ---------------------------------------------------------------- rendering (vibesql text)

fn atom(e: &E) -> bool {
    matches!(e, E::Col(..) | E::Int(_) | E::Null)
}

pub fn render_e(e: &E) -> String {
    match e {
        E::Col(Some(q), c) => format!("{}.{}", q, c),
        E::Col(None, c) => c.clone(),
        E::Int(i) => i.to_string(),
        E::Null => "NULL".into(),
        E::Cmp(op, a, b) => {
            let ra = if atom(a) { render_e(a) } else { format!("({})", render_e(a)) };
            let rb = if atom(b) { render_e(b) } else { format!("({})", render_e(b)) };
            format!("{} {} {}", ra, op, rb)
        }
        E::And(a, b) => {
            let p = |x: &E| if matches!(x, E::Or(..)) { format!("({})", render_e(x)) } else { render_e(x) };
            format!("{} AND {}", p(a), p(b))
        }
        E::Or(a, b) => {
            let p = |x: &E| if matches!(x, E::And(..)) { format!("({})", render_e(x)) } else { render_e(x) };
            format!("{} OR {}", p(a), p(b))
        }
        E::Not(a) => format!("NOT ({})", render_e(a)),
        E::IsNull(a, neg) => {
            let ra = if atom(a) { render_e(a) } else { format!("({})", render_e(a)) };
            format!("{} IS {}NULL", ra, if *neg { "NOT " } else { "" })
        }
        E::InSub(a, q, neg) => format!("{} {}IN ({})", render_e(a), if *neg { "NOT " } else { "" }, render_q(q)),
        E::Exists(q, neg) => format!("{}EXISTS ({})", if *neg { "NOT " } else { "" }, render_q(q)),
        E::Quant(op, all, a, q) => format!("{} {} {} ({})", render_e(a), op, if *all { "ALL" } else { "ANY" }, render_q(q)),
    }
}

pub fn render_f(f: &F) -> String {
    match f {
        F::T { name, alias: None } => name.clone(),
        F::T { name, alias: Some(a) } => format!("{} AS {}", name, a),
        F::D { q, alias } => format!("({}) AS {}", render_q(q), alias),
        F::J { kind, l, r, on } => {
            let sep = match kind {
                JK::Comma => ", ",
                JK::Cross => " CROSS JOIN ",
                JK::Inner => " JOIN ",
            };
            let mut s = format!("{}{}{}", render_f(l), sep, render_f(r));
            if let Some(c) = on {
                s.push_str(&format!(" ON {}", render_e(c)));
            }
            s
        }
    }
}

pub fn render_q(q: &Q) -> String {
    let sel = match &q.sel {
        Sel::Star => "*".to_string(),
        Sel::One => "1".to_string(),
        Sel::Cols(c) => c.iter().map(render_e).collect::<Vec<_>>().join(", "),
        Sel::CountStar => "COUNT(*)".to_string(),
        Sel::Max(e) => format!("MAX({})", render_e(e)),
    };
    let mut s = format!("SELECT {}{} FROM {}", if q.distinct { "DISTINCT " } else { "" }, sel, render_f(&q.from));
    if let Some(w) = &q.wh {
        s.push_str(&format!(" WHERE {}", render_e(w)));
    }
    s
}

// ---------------------------------------------------------------- data

#[derive(Clone, Debug, Default)]
pub struct Table {
    pub cols: Vec<String>,
    pub rows: Vec<Vec<Val>>,
}

pub type Db = BTreeMap<String, Table>;

/// One row in scope: bindings (qualifier, column names, values) of the FROM items of one query level.
pub type Scope = Vec<(String, Vec<String>, Vec<Val>)>;

// ---------------------------------------------------------------- definitional evaluation

const T: Val = Val::Int(1);
const FV: Val = Val::Int(0);

fn tv(b: bool) -> Val {
    if b {
        T
    } else {
        FV
    }
}

fn v_not(v: Val) -> Val {
    match v {
        Val::Null => Val::Null,
        Val::Int(0) => T,
        Val::Int(_) => FV,
    }
}

fn v_and(a: Val, b: Val) -> Val {
    if a == FV || b == FV {
        FV
    } else if a == Val::Null || b == Val::Null {
        Val::Null
    } else {
        T
    }
}

fn v_or(a: Val, b: Val) -> Val {
    if a == T || b == T {
        T
    } else if a == Val::Null || b == Val::Null {
        Val::Null
    } else {
        FV
    }
}

fn names_eq(a: &str, b: &str) -> bool {
    a.eq_ignore_ascii_case(b)
}

/// `scopes`: innermost query level first.
fn lookup(qual: &Option<String>, name: &str, scopes: &[&Scope]) -> Result<Val, String> {
    for sc in scopes {
        let mut hit: Option<Val> = None;
        for (q, cols, vals) in sc.iter() {
            if let Some(want) = qual {
                if !names_eq(want, q) {
                    continue;
                }
            }
            for (i, c) in cols.iter().enumerate() {
                if names_eq(c, name) {
                    if hit.is_some() {
                        return Err(format!("ambiguous column {:?}.{}", qual, name));
                    }
                    hit = Some(vals[i]);
                }
            }
        }
        if let Some(v) = hit {
            return Ok(v);
        }
    }
    Err(format!("unresolved column {:?}.{}", qual, name))
}

fn v_cmp(op: &str, a: Val, b: Val) -> Result<Val, String> {
    Ok(match (a, b) {
        (Val::Int(x), Val::Int(y)) => tv(match op {
            "=" => x == y,
            "<>" => x != y,
            "<" => x < y,
            "<=" => x <= y,
            ">" => x > y,
            ">=" => x >= y,
            o => return Err(format!("unknown operator {}", o)),
        }),
        _ => Val::Null,
    })
}

pub fn eval(db: &Db, e: &E, scopes: &[&Scope]) -> Result<Val, String> {
    Ok(match e {
        E::Col(q, c) => lookup(q, c, scopes)?,
        E::Int(i) => Val::Int(*i),
        E::Null => Val::Null,
        E::Cmp(op, a, b) => v_cmp(op, eval(db, a, scopes)?, eval(db, b, scopes)?)?,
        E::Quant(op, all, a, q) => {
            let x = eval(db, a, scopes)?;
            let (_, rows) = query(db, q, scopes)?;
            // ANY = OR over the rows of (x op s), ALL = AND over the rows of (x op s)
            let mut r = if *all { T } else { FV };
            for row in &rows {
                if row.len() != 1 {
                    return Err("quantified subquery must return one column".into());
                }
                let c = v_cmp(op, x, row[0])?;
                r = if *all { v_and(r, c) } else { v_or(r, c) };
            }
            r
        }
        E::And(a, b) => v_and(eval(db, a, scopes)?, eval(db, b, scopes)?),
        E::Or(a, b) => v_or(eval(db, a, scopes)?, eval(db, b, scopes)?),
        E::Not(a) => v_not(eval(db, a, scopes)?),
        E::IsNull(a, neg) => tv((eval(db, a, scopes)? == Val::Null) != *neg),
        E::InSub(a, q, neg) => {
            let x = eval(db, a, scopes)?;
            let (_, rows) = query(db, q, scopes)?;
            let mut r = FV;
            for row in &rows {
                if row.len() != 1 {
                    return Err("IN subquery must return one column".into());
                }
                // x IN S  =  OR over s of (x = s)
                let eq = v_cmp("=", x, row[0])?;
                r = v_or(r, eq);
            }
            if *neg {
                v_not(r)
            } else {
                r
            }
        }
        E::Exists(q, neg) => {
            let (_, rows) = query(db, q, scopes)?;
            tv(rows.is_empty() == *neg)
        }
    })
}

fn from_rows(db: &Db, f: &F, outer: &[&Scope]) -> Result<Vec<Scope>, String> {
    match f {
        F::T { name, alias } => {
            let t = db.iter().find(|(k, _)| names_eq(k, name)).map(|(_, t)| t).ok_or(format!("no table {}", name))?;
            let q = alias.clone().unwrap_or_else(|| name.clone());
            Ok(t.rows.iter().map(|r| vec![(q.clone(), t.cols.clone(), r.clone())]).collect())
        }
        F::D { q, alias } => {
            let (cols, rows) = query(db, q, outer)?;
            Ok(rows.into_iter().map(|r| vec![(alias.clone(), cols.clone(), r)]).collect())
        }
        F::J { l, r, on, .. } => {
            let lr = from_rows(db, l, outer)?;
            let rr = from_rows(db, r, outer)?;
            let mut out = vec![];
            for a in &lr {
                for b in &rr {
                    let mut sc = a.clone();
                    sc.extend(b.iter().cloned());
                    let keep = match on {
                        None => true,
                        Some(c) => {
                            let mut scopes: Vec<&Scope> = vec![&sc];
                            scopes.extend_from_slice(outer);
                            eval(db, c, &scopes)? == T
                        }
                    };
                    if keep {
                        out.push(sc);
                    }
                }
            }
            Ok(out)
        }
    }
}

/// Result column names and rows (a bag, in nested-loop order).
pub fn query(db: &Db, q: &Q, outer: &[&Scope]) -> Result<(Vec<String>, Vec<Vec<Val>>), String> {
    if let Sel::CountStar | Sel::Max(_) = &q.sel {
        // aggregate over the rows that pass WHERE; always exactly one result row
        let mut count = 0i64;
        let mut max: Option<i64> = None;
        for sc in from_rows(db, &q.from, outer)? {
            let mut scopes: Vec<&Scope> = vec![&sc];
            scopes.extend_from_slice(outer);
            if let Some(w) = &q.wh {
                if eval(db, w, &scopes)? != T {
                    continue;
                }
            }
            count += 1;
            if let Sel::Max(e) = &q.sel {
                if let Val::Int(v) = eval(db, e, &scopes)? {
                    max = Some(max.map_or(v, |m| m.max(v)));
                }
            }
        }
        let v = match &q.sel {
            Sel::CountStar => Val::Int(count),
            _ => max.map_or(Val::Null, Val::Int),
        };
        return Ok((vec!["agg".into()], vec![vec![v]]));
    }
    let mut names: Vec<String> = vec![];
    let mut rows: Vec<Vec<Val>> = vec![];
    let mut first = true;
    for sc in from_rows(db, &q.from, outer)? {
        let mut scopes: Vec<&Scope> = vec![&sc];
        scopes.extend_from_slice(outer);
        if let Some(w) = &q.wh {
            if eval(db, w, &scopes)? != T {
                continue;
            }
        }
        let mut row = vec![];
        match &q.sel {
            Sel::Star => {
                for (_, cols, vals) in sc.iter() {
                    if first {
                        names.extend(cols.iter().cloned());
                    }
                    row.extend(vals.iter().cloned());
                }
            }
            Sel::One => {
                if first {
                    names.push("1".into());
                }
                row.push(Val::Int(1));
            }
            Sel::CountStar | Sel::Max(_) => unreachable!(),
            Sel::Cols(cs) => {
                for c in cs {
                    if first {
                        names.push(match c {
                            E::Col(_, n) => n.clone(),
                            _ => "?".into(),
                        });
                    }
                    row.push(eval(db, c, &scopes)?);
                }
            }
        }
        first = false;
        rows.push(row);
    }
    if first {
        // no row produced: derive the names without a row (needed by derived tables over empty inputs)
        names = static_names(db, q)?;
    }
    if q.distinct {
        let mut seen: Vec<Vec<Val>> = vec![];
        rows.retain(|r| {
            if seen.contains(r) {
                false
            } else {
                seen.push(r.clone());
                true
            }
        });
    }
    Ok((names, rows))
}

fn static_from_names(db: &Db, f: &F) -> Result<Vec<String>, String> {
    Ok(match f {
        F::T { name, .. } => db.iter().find(|(k, _)| names_eq(k, name)).map(|(_, t)| t.cols.clone()).ok_or(format!("no table {}", name))?,
        F::D { q, .. } => static_names(db, q)?,
        F::J { l, r, .. } => {
            let mut v = static_from_names(db, l)?;
            v.extend(static_from_names(db, r)?);
            v
        }
    })
}

fn static_names(db: &Db, q: &Q) -> Result<Vec<String>, String> {
    Ok(match &q.sel {
        Sel::Star => static_from_names(db, &q.from)?,
        Sel::One => vec!["1".into()],
        Sel::CountStar | Sel::Max(_) => vec!["agg".into()],
        Sel::Cols(cs) => cs
            .iter()
            .map(|c| match c {
                E::Col(_, n) => n.clone(),
                _ => "?".into(),
            })
            .collect(),
    })
}

/// Sorted bag of a top-level query.
pub fn bag_of(db: &Db, q: &Q) -> Result<Vec<Vec<Val>>, String> {
    let (_, mut rows) = query(db, q, &[])?;
    rows.sort();
    Ok(rows)
}

pub fn fmt_bag(b: &[Vec<Val>]) -> String {
    let rows: Vec<String> = b
        .iter()
        .take(14)
        .map(|r| {
            format!(
                "({})",
                r.iter()
                    .map(|v| match v {
                        Val::Null => "NULL".to_string(),
                        Val::Int(i) => i.to_string(),
                    })
                    .collect::<Vec<_>>()
                    .join(",")
            )
        })
        .collect();
    format!("[{}{}]", rows.join(","), if b.len() > 14 { format!(",…+{}", b.len() - 14) } else { String::new() })
}
