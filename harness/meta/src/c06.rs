//! C06 — not built yet (see DESIGN.md §5 C06).

pub fn run(_tier: &str) -> i32 {
    eprintln!("MACHINERY-ERROR C06 is not built yet");
    2
}

pub fn replay(_case: &serde_json::Value) -> i32 {
    eprintln!("MACHINERY-ERROR C06 is not built yet");
    2
}
