//! C06 — predicates partition rows consistently under three-valued logic (metamorphic, no reference).
//!
//! For every predicate p of a bounded grammar × query shape Q × small database:
//!   rows(Q) = rows(Q ∧ p) ⊎ rows(Q ∧ NOT p) ⊎ rows(Q ∧ (p IS NULL))      (rule per shape, below)
//!   |Q WHERE p| = number of rows of `SELECT p FROM …` that are TRUE       (row-producing shapes)
//! Nothing is compared with an expected output: the four (five) queries are all executed by the engine
//! and only their mutual consistency is demanded. Enumeration is complete within the tier's bounds.

use std::collections::{BTreeMap, BTreeSet, HashMap, HashSet};
use std::sync::atomic::{AtomicU64, Ordering};
use std::sync::Mutex;

use serde_json::{json, Value};
use vcore::exec::{self, Out};
use vcore::report::Report;
use vcore::util;
use vcore::val::{self, NV};
use vibesql_storage::Database;

// =============================================================================================
// predicates
// =============================================================================================

#[derive(Clone, Debug)]
pub enum P {
    /// SQL text of an atom, its kind tag, the columns (of a,b,c) it looks at
    Atom(String, &'static str, &'static str),
    Not(Box<P>),
    And(Box<P>, Box<P>),
    Or(Box<P>, Box<P>),
}

impl P {
    /// SQL with every column prefixed by `q` (e.g. "t.") — atoms are written with `{}` placeholders
    fn sql(&self, q: &str) -> String {
        match self {
            P::Atom(s, _, _) => s.replace("{}", q),
            P::Not(a) => format!("NOT ({})", a.sql(q)),
            P::And(a, b) => format!("({}) AND ({})", a.sql(q), b.sql(q)),
            P::Or(a, b) => format!("({}) OR ({})", a.sql(q), b.sql(q)),
        }
    }
    fn cols(&self, out: &mut BTreeSet<char>) {
        match self {
            P::Atom(_, _, c) => out.extend(c.chars()),
            P::Not(a) => a.cols(out),
            P::And(a, b) | P::Or(a, b) => {
                a.cols(out);
                b.cols(out)
            }
        }
    }
    fn kinds(&self, out: &mut BTreeSet<&'static str>) {
        match self {
            P::Atom(_, k, _) => {
                out.insert(k);
            }
            P::Not(a) => a.kinds(out),
            P::And(a, b) | P::Or(a, b) => {
                a.kinds(out);
                b.kinds(out)
            }
        }
    }
    /// structure with atoms erased, e.g. `not(and(_,_))`
    fn structure(&self) -> String {
        match self {
            P::Atom(..) => "_".into(),
            P::Not(a) => format!("not({})", a.structure()),
            P::And(a, b) => format!("and({},{})", a.structure(), b.structure()),
            P::Or(a, b) => format!("or({},{})", a.structure(), b.structure()),
        }
    }
    fn depth(&self) -> usize {
        match self {
            P::Atom(..) => 0,
            P::Not(a) => 1 + a.depth(),
            P::And(a, b) | P::Or(a, b) => 1 + a.depth().max(b.depth()),
        }
    }
}

fn atom(s: &str, kind: &'static str, cols: &'static str) -> P {
    P::Atom(s.to_string(), kind, cols)
}

/// The atom menu. `{}` stands for the column qualifier. `core` atoms are the ones combined at depth ≥ 1.
fn atoms(thorough: bool) -> (Vec<P>, Vec<P>) {
    let mut v: Vec<P> = vec![];
    let ops = ["=", "<>", "<", "<=", ">", ">="];
    // col op lit
    for op in ops {
        v.push(atom(&format!("{{}}a {} 1", op), "cmp_lit", "a"));
    }
    v.push(atom("{}a = 0", "cmp_lit", "a"));
    v.push(atom("{}a > 0", "cmp_lit", "a"));
    v.push(atom("{}a = NULL", "cmp_null", "a"));
    v.push(atom("{}a <> NULL", "cmp_null", "a"));
    // lit op col
    v.push(atom("1 = {}a", "lit_cmp", "a"));
    v.push(atom("0 < {}a", "lit_cmp", "a"));
    // col op col
    for op in ops {
        v.push(atom(&format!("{{}}a {} {{}}b", op), "cmp_col", "ab"));
    }
    // IS [NOT] NULL
    v.push(atom("{}a IS NULL", "is_null", "a"));
    v.push(atom("{}a IS NOT NULL", "is_null", "a"));
    // BETWEEN
    v.push(atom("{}a BETWEEN 0 AND 1", "between", "a"));
    v.push(atom("{}a NOT BETWEEN 0 AND 0", "between", "a"));
    v.push(atom("{}a BETWEEN 1 AND 0", "between", "a"));
    v.push(atom("{}a BETWEEN NULL AND 1", "between_null", "a"));
    v.push(atom("{}a BETWEEN 0 AND NULL", "between_null", "a"));
    v.push(atom("{}a BETWEEN {}b AND 1", "between_col", "ab"));
    // IN list
    v.push(atom("{}a IN (0, 1)", "in_list", "a"));
    v.push(atom("{}a IN (1)", "in_list", "a"));
    v.push(atom("{}a IN (0, NULL)", "in_null", "a"));
    v.push(atom("{}a NOT IN (0, NULL)", "in_null", "a"));
    v.push(atom("{}a NOT IN (0, 1)", "in_list", "a"));
    v.push(atom("{}a IN (NULL)", "in_null", "a"));
    v.push(atom("{}a IN ({}b, 1)", "in_col", "ab"));
    // LIKE
    v.push(atom("{}c LIKE 'a%'", "like", "c"));
    v.push(atom("{}c LIKE '%b'", "like", "c"));
    v.push(atom("{}c LIKE '_'", "like", "c"));
    v.push(atom("{}c LIKE 'a'", "like", "c"));
    v.push(atom("{}c NOT LIKE 'a%'", "like", "c"));
    v.push(atom("{}c LIKE '%'", "like", "c"));
    // CASE
    v.push(atom("CASE WHEN {}a = 1 THEN {}b = 1 ELSE {}b IS NULL END", "case_bool", "ab"));
    v.push(atom("CASE WHEN {}a = 1 THEN 1 ELSE 0 END = 1", "case_cmp", "a"));
    v.push(atom("CASE {}a WHEN 0 THEN 1 WHEN 1 THEN NULL ELSE 0 END = 1", "case_cmp", "a"));
    v.push(atom("CASE WHEN {}a > 0 THEN {}b ELSE {}a END > 0", "case_cmp", "ab"));
    v.push(atom("CASE WHEN {}a = 1 THEN 1 WHEN {}a = 0 THEN 0 END", "case_int", "a"));
    if thorough {
        for op in ops {
            v.push(atom(&format!("{{}}b {} 0", op), "cmp_lit", "b"));
        }
        v.push(atom("1 >= {}a", "lit_cmp", "a"));
        v.push(atom("{}b IS NULL", "is_null", "b"));
        v.push(atom("{}a NOT BETWEEN {}b AND 1", "between_col", "ab"));
        v.push(atom("{}a BETWEEN SYMMETRIC 1 AND 0", "between", "a"));
        v.push(atom("{}a IN (0, 0)", "in_list", "a"));
        v.push(atom("{}a NOT IN (NULL)", "in_null", "a"));
        v.push(atom("{}a NOT IN ({}b, NULL)", "in_col", "ab"));
        v.push(atom("{}c = 'a'", "cmp_str", "c"));
        v.push(atom("{}c > 'a'", "cmp_str", "c"));
        v.push(atom("{}c NOT LIKE '_b'", "like", "c"));
        v.push(atom("{}c LIKE NULL", "like_null", "c"));
        v.push(atom("{}c IN ('a', NULL)", "in_null", "c"));
    }
    // core atoms for combinations: one per evaluation mechanism, with NULL-producing ones
    let core: Vec<P> = vec![
        atom("{}a = 1", "cmp_lit", "a"),
        atom("{}b < 1", "cmp_lit", "b"),
        atom("{}a IS NULL", "is_null", "a"),
        atom("{}a IN (0, NULL)", "in_null", "a"),
        atom("{}a = {}b", "cmp_col", "ab"),
        atom("{}b BETWEEN 0 AND 0", "between", "b"),
    ];
    (v, core)
}

fn predicates(thorough: bool) -> Vec<P> {
    let (atoms, core) = atoms(thorough);
    let mut v: Vec<P> = atoms.clone();
    // depth 1
    for a in &atoms {
        v.push(P::Not(Box::new(a.clone())));
    }
    let n1 = if thorough { core.len() } else { 4 };
    for x in core.iter().take(n1) {
        for y in core.iter().take(n1) {
            v.push(P::And(Box::new(x.clone()), Box::new(y.clone())));
            v.push(P::Or(Box::new(x.clone()), Box::new(y.clone())));
        }
    }
    if thorough {
        // depth 2 over the core atoms
        let k = &core[..5];
        for x in k {
            for y in k {
                for (i, comb) in [P::And(Box::new(x.clone()), Box::new(y.clone())), P::Or(Box::new(x.clone()), Box::new(y.clone()))].into_iter().enumerate() {
                    v.push(P::Not(Box::new(comb.clone())));
                    let nx = P::Not(Box::new(x.clone()));
                    let ny = P::Not(Box::new(y.clone()));
                    if i == 0 {
                        v.push(P::And(Box::new(nx.clone()), Box::new(y.clone())));
                        v.push(P::And(Box::new(x.clone()), Box::new(ny.clone())));
                    } else {
                        v.push(P::Or(Box::new(nx.clone()), Box::new(y.clone())));
                        v.push(P::Or(Box::new(x.clone()), Box::new(ny.clone())));
                    }
                    for z in &k[..4] {
                        if i == 0 {
                            v.push(P::Or(Box::new(comb.clone()), Box::new(z.clone())));
                            v.push(P::Or(Box::new(z.clone()), Box::new(comb.clone())));
                        } else {
                            v.push(P::And(Box::new(comb.clone()), Box::new(z.clone())));
                            v.push(P::And(Box::new(z.clone()), Box::new(comb.clone())));
                        }
                    }
                }
            }
        }
    } else {
        // quick: a handful of depth-2 forms (NOT over AND/OR, mixed AND/OR)
        let x = &core[0];
        let y = &core[3];
        let z = &core[1];
        let and = P::And(Box::new(x.clone()), Box::new(y.clone()));
        let or = P::Or(Box::new(x.clone()), Box::new(y.clone()));
        v.push(P::Not(Box::new(and.clone())));
        v.push(P::Not(Box::new(or.clone())));
        v.push(P::Or(Box::new(and), Box::new(z.clone())));
        v.push(P::And(Box::new(or), Box::new(z.clone())));
    }
    v
}

/// HAVING predicates over the group key / aggregates (shape `having`)
fn having_predicates() -> Vec<P> {
    vec![
        atom("a = 1", "having_key", "a"),
        atom("a IS NULL", "having_key", "a"),
        atom("a IN (0, NULL)", "having_key", "a"),
        atom("COUNT(*) > 1", "having_agg", "ab"),
        atom("SUM(b) > 0", "having_agg", "ab"),
        atom("MIN(b) = 0", "having_agg", "ab"),
        atom("SUM(b) IS NULL", "having_agg", "ab"),
        P::Or(Box::new(atom("a = 1", "having_key", "a")), Box::new(atom("SUM(b) > 0", "having_agg", "ab"))),
        P::Not(Box::new(atom("MIN(b) = 0", "having_agg", "ab"))),
        P::And(Box::new(atom("COUNT(*) > 1", "having_agg", "ab")), Box::new(atom("a IN (0, NULL)", "having_key", "a"))),
    ]
}

// =============================================================================================
// shapes
// =============================================================================================

#[derive(Clone, Copy, Debug, PartialEq, Eq, PartialOrd, Ord)]
enum Rule {
    Bag,
    Set,
    GroupCount,
    CountSum,
}

struct Shape {
    id: &'static str,
    /// select list + FROM (no WHERE), with `{W}` where the WHERE/HAVING condition goes
    template: &'static str,
    /// a condition that is always part of the query (join condition), ANDed in front of p
    fixed: Option<&'static str>,
    /// column qualifier for p
    qual: &'static str,
    rule: Rule,
    /// `SELECT (p) FROM …` template for the count clause (None: the clause does not apply)
    proj: Option<&'static str>,
    having: bool,
    needs_u: bool,
    thorough_only: bool,
}

const SHAPES: &[Shape] = &[
    Shape { id: "plain", template: "SELECT a, b, c FROM t{W}", fixed: None, qual: "", rule: Rule::Bag, proj: Some("SELECT {P} FROM t"), having: false, needs_u: false, thorough_only: false },
    Shape { id: "distinct", template: "SELECT DISTINCT a, b FROM t{W}", fixed: None, qual: "", rule: Rule::Set, proj: None, having: false, needs_u: false, thorough_only: false },
    Shape { id: "group_count", template: "SELECT a, COUNT(*) FROM t{W} GROUP BY a", fixed: None, qual: "", rule: Rule::GroupCount, proj: None, having: false, needs_u: false, thorough_only: false },
    Shape { id: "global_agg", template: "SELECT COUNT(*), SUM(b) FROM t{W}", fixed: None, qual: "", rule: Rule::CountSum, proj: None, having: false, needs_u: false, thorough_only: false },
    Shape { id: "join", template: "SELECT t.a, t.b, t.c, u.d FROM t, u{W}", fixed: Some("t.a = u.a"), qual: "t.", rule: Rule::Bag, proj: Some("SELECT {P} FROM t, u WHERE t.a = u.a"), having: false, needs_u: true, thorough_only: false },
    Shape { id: "view", template: "SELECT a, b, c FROM v{W}", fixed: None, qual: "", rule: Rule::Bag, proj: Some("SELECT {P} FROM v"), having: false, needs_u: false, thorough_only: false },
    Shape { id: "having", template: "SELECT a, COUNT(*) FROM t GROUP BY a{W}", fixed: None, qual: "", rule: Rule::Bag, proj: None, having: true, needs_u: false, thorough_only: false },
    Shape { id: "join_on", template: "SELECT t.a, t.b, t.c, u.d FROM t JOIN u ON t.a = u.a{W}", fixed: None, qual: "t.", rule: Rule::Bag, proj: Some("SELECT {P} FROM t JOIN u ON t.a = u.a"), having: false, needs_u: true, thorough_only: true },
    Shape { id: "derived", template: "SELECT a, b, c FROM (SELECT a, b, c FROM t) AS s{W}", fixed: None, qual: "", rule: Rule::Bag, proj: Some("SELECT {P} FROM (SELECT a, b, c FROM t) AS s"), having: false, needs_u: false, thorough_only: true },
    Shape { id: "group_sum", template: "SELECT b, COUNT(*), COUNT(a) FROM t{W} GROUP BY b", fixed: None, qual: "", rule: Rule::GroupCount, proj: None, having: false, needs_u: false, thorough_only: true },
];

impl Shape {
    fn query(&self, cond: Option<&str>) -> String {
        let kw = if self.having { " HAVING " } else { " WHERE " };
        let w = match (self.fixed, cond) {
            (None, None) => String::new(),
            (Some(f), None) => format!("{}{}", kw, f),
            (None, Some(c)) => format!("{}{}", kw, c),
            (Some(f), Some(c)) => format!("{}{} AND ({})", kw, f, c),
        };
        self.template.replace("{W}", &w)
    }
}

// =============================================================================================
// databases
// =============================================================================================

#[derive(Clone, Debug, PartialEq, Eq, PartialOrd, Ord, Hash)]
enum V {
    Null,
    Int(i64),
    Str(&'static str),
}

fn lit(v: &V) -> String {
    match v {
        V::Null => "NULL".into(),
        V::Int(i) => i.to_string(),
        V::Str(s) => format!("'{}'", s),
    }
}

const INTS: [V; 3] = [V::Null, V::Int(0), V::Int(1)];
const STRS: [V; 4] = [V::Null, V::Str("a"), V::Str("ab"), V::Str("b")];

/// All multisets of ≤ n rows (a,b,c) in which only the columns in `cols` vary (others: a=0,b=0,c='a').
fn t_bags(cols: &str, n: usize) -> Vec<Vec<[V; 3]>> {
    let da: Vec<V> = if cols.contains('a') { INTS.to_vec() } else { vec![V::Int(0)] };
    let db: Vec<V> = if cols.contains('b') { INTS.to_vec() } else { vec![V::Int(0)] };
    let dc: Vec<V> = if cols.contains('c') { STRS.to_vec() } else { vec![V::Str("a")] };
    let mut rows = vec![];
    for a in &da {
        for b in &db {
            for c in &dc {
                rows.push([a.clone(), b.clone(), c.clone()]);
            }
        }
    }
    let mut out = vec![];
    for size in 0..=n {
        for ms in util::multisets(rows.len(), size) {
            out.push(ms.iter().map(|i| rows[*i].clone()).collect());
        }
    }
    out
}

const U_VARIANTS: &[&[(Option<i64>, i64)]] = &[&[(Some(0), 7)], &[(Some(1), 7), (None, 8)], &[(Some(1), 7), (Some(1), 8), (Some(0), 9)]];

fn setup_sql(t: &[[V; 3]], u: &[(Option<i64>, i64)], index: &str) -> Vec<String> {
    let mut s = vec!["CREATE TABLE t (a INT, b INT, c VARCHAR(10))".to_string(), "CREATE TABLE u (a INT, d INT)".to_string()];
    if !t.is_empty() {
        s.push(format!("INSERT INTO t VALUES {}", t.iter().map(|r| format!("({}, {}, {})", lit(&r[0]), lit(&r[1]), lit(&r[2]))).collect::<Vec<_>>().join(", ")));
    }
    if !u.is_empty() {
        s.push(format!("INSERT INTO u VALUES {}", u.iter().map(|(a, d)| format!("({}, {})", a.map(|x| x.to_string()).unwrap_or("NULL".into()), d)).collect::<Vec<_>>().join(", ")));
    }
    s.push("CREATE VIEW v AS SELECT a, b, c FROM t".to_string());
    match index {
        "none" => {}
        "a" => s.push("CREATE INDEX ia ON t (a)".into()),
        "b" => s.push("CREATE INDEX ib ON t (b)".into()),
        "ab" => s.push("CREATE INDEX iab ON t (a, b)".into()),
        "c" => s.push("CREATE INDEX ic ON t (c)".into()),
        other => panic!("unknown index variant {}", other),
    }
    s
}

fn build_engine(stmts: &[String]) -> Result<Database, String> {
    let mut db = Database::new();
    for s in stmts {
        let o = exec::exec(&mut db, s);
        if !o.is_ok() {
            return Err(format!("setup statement failed: {} => {}", s, o.brief()));
        }
    }
    Ok(db)
}

// =============================================================================================
// the laws
// =============================================================================================

type Rows = Vec<Vec<NV>>;

fn nv_num(v: &NV) -> Option<i128> {
    match v {
        NV::Int(i) => Some(*i),
        _ => None,
    }
}

/// Does `whole` equal the combination of `parts` under `rule`? Err(text) explains the mismatch.
fn combine_ok(rule: Rule, whole: &Rows, parts: [&Rows; 3]) -> Result<(), String> {
    match rule {
        Rule::Bag => {
            let mut all: Rows = parts.iter().flat_map(|p| p.iter().cloned()).collect();
            all.sort();
            let mut w = whole.clone();
            w.sort();
            if all == w {
                Ok(())
            } else {
                Err(format!("bag(Q)={} but union of the three parts={}", val::fmt_bag(&w), val::fmt_bag(&all)))
            }
        }
        Rule::Set => {
            for p in parts.iter() {
                let s: BTreeSet<&Vec<NV>> = p.iter().collect();
                if s.len() != p.len() {
                    return Err(format!("a DISTINCT part contains duplicates: {}", val::fmt_bag(p)));
                }
            }
            let all: BTreeSet<Vec<NV>> = parts.iter().flat_map(|p| p.iter().cloned()).collect();
            let w: BTreeSet<Vec<NV>> = whole.iter().cloned().collect();
            if w.len() != whole.len() {
                return Err(format!("DISTINCT Q contains duplicates: {}", val::fmt_bag(whole)));
            }
            if all == w {
                Ok(())
            } else {
                Err(format!("set(Q)={:?} but union of the parts={:?}", w.iter().map(|r| val::fmt_bag(&[r.clone()])).collect::<Vec<_>>(), all.iter().map(|r| val::fmt_bag(&[r.clone()])).collect::<Vec<_>>()))
            }
        }
        Rule::GroupCount => {
            // rows are (key, count, [count…]); counts add per key; a key absent from a part counts 0
            let width = whole.first().or(parts.iter().find_map(|p| p.first())).map(|r| r.len()).unwrap_or(2);
            let mut sum: BTreeMap<NV, Vec<i128>> = BTreeMap::new();
            for p in parts.iter() {
                for r in p.iter() {
                    let e = sum.entry(r[0].clone()).or_insert_with(|| vec![0; width - 1]);
                    for i in 1..width {
                        e[i - 1] += nv_num(&r[i]).ok_or(format!("non-numeric count in {}", val::fmt_bag(p)))?;
                    }
                }
            }
            sum.retain(|_, c| c[0] != 0);
            let mut w: BTreeMap<NV, Vec<i128>> = BTreeMap::new();
            for r in whole.iter() {
                if w.contains_key(&r[0]) {
                    return Err(format!("group key twice in Q: {}", val::fmt_bag(whole)));
                }
                let mut c = vec![];
                for i in 1..width {
                    c.push(nv_num(&r[i]).ok_or(format!("non-numeric count in {}", val::fmt_bag(whole)))?);
                }
                w.insert(r[0].clone(), c);
            }
            if w == sum {
                Ok(())
            } else {
                Err(format!("per-group counts of Q={} but parts add up to {:?} (parts {} | {} | {})", val::fmt_bag(whole), sum, val::fmt_bag(parts[0]), val::fmt_bag(parts[1]), val::fmt_bag(parts[2])))
            }
        }
        Rule::CountSum => {
            // exactly one row (COUNT(*), SUM(b)) each; counts add; sums add; NULL reads as 0 on both sides
            let one = |r: &Rows| -> Result<(i128, i128), String> {
                if r.len() != 1 || r[0].len() != 2 {
                    return Err(format!("aggregate query without GROUP BY returned {} rows: {}", r.len(), val::fmt_bag(r)));
                }
                // COUNT(*) = NULL (the columnar path on an empty input, a defect of property C03) reads as 0:
                // this law only demands that the parts add up
                let c = match &r[0][0] {
                    NV::Null => 0,
                    v => nv_num(v).ok_or(format!("COUNT(*) is not a number: {}", val::fmt_bag(r)))?,
                };
                let s = match &r[0][1] {
                    NV::Null => 0,
                    v => nv_num(v).ok_or(format!("SUM is not an integer: {}", val::fmt_bag(r)))?,
                };
                Ok((c, s))
            };
            let w = one(whole)?;
            let mut acc = (0, 0);
            for p in parts.iter() {
                let x = one(p)?;
                acc.0 += x.0;
                acc.1 += x.1;
            }
            if w == acc {
                Ok(())
            } else {
                Err(format!("(COUNT,SUM) of Q={:?} but the parts add up to {:?} (parts {} | {} | {})", w, acc, val::fmt_bag(parts[0]), val::fmt_bag(parts[1]), val::fmt_bag(parts[2])))
            }
        }
    }
}

/// Number of rows of a one-column result whose value is TRUE (boolean true, or non-zero number:
/// the engine's WHERE treats a non-zero number as true).
fn count_true(r: &Rows) -> usize {
    r.iter().filter(|row| matches!(row.first(), Some(NV::Int(i)) if *i != 0)).count()
}

// =============================================================================================
// the run
// =============================================================================================

struct Case<'a> {
    shape: &'a Shape,
    p: &'a P,
}

#[derive(Default)]
struct Stats {
    cases: u64,
    executions: u64,
    skipped_err: u64,
    panics: u64,
    nontrivial: u64,
    count_clause: u64,
    failing: u64,
    outcomes: HashSet<u64>,
    err_kinds: BTreeMap<String, u64>,
    per_shape: BTreeMap<&'static str, u64>,
}

struct Found {
    order: usize,
    sig: Vec<(&'static str, String)>,
    what: String,
    case: Value,
}

fn rows_of(o: &Out) -> Option<Rows> {
    match o {
        Out::Rows(r) => Some(r.iter().map(|x| val::norm_row(x)).collect()),
        _ => None,
    }
}

fn hash_rows(b: &Rows) -> u64 {
    use std::hash::{Hash, Hasher};
    #[allow(deprecated)]
    let mut h = std::hash::SipHasher::new_with_keys(5, 13);
    b.hash(&mut h);
    h.finish()
}

/// The four/five queries of a case.
fn case_queries(shape: &Shape, p: &P) -> (String, String, String, Option<String>) {
    let ps = p.sql(shape.qual);
    let qp = shape.query(Some(&ps));
    let qn = shape.query(Some(&format!("NOT ({})", ps)));
    let qu = shape.query(Some(&format!("({}) IS NULL", ps)));
    let proj = shape.proj.map(|t| t.replace("{P}", &format!("({})", ps)));
    (qp, qn, qu, proj)
}

/// Evaluate one case on a database. Ok(None) = held; Ok(Some(law, text)) = violated; Err = skipped (engine error).
fn check_case(db: &Database, shape: &Shape, p: &P, q_rows: &Rows, st: &mut Stats) -> Result<Option<(&'static str, String)>, String> {
    let (qp, qn, qu, proj) = case_queries(shape, p);
    let mut parts: Vec<Rows> = vec![];
    for sql in [&qp, &qn, &qu] {
        let o = exec::select(db, sql);
        st.executions += 1;
        match &o {
            Out::Rows(_) => parts.push(rows_of(&o).unwrap()),
            Out::Panic(m) => {
                st.panics += 1;
                return Ok(Some(("panic", format!("`{}` panicked: {}", sql, util::trunc(m, 160)))));
            }
            other => return Err(other.brief()),
        }
    }
    for pr in &parts {
        st.outcomes.insert(hash_rows(pr));
    }
    if parts.iter().filter(|p| !p.is_empty()).count() >= 2 || (shape.rule == Rule::CountSum && !q_rows.is_empty()) {
        st.nontrivial += 1;
    }
    if let Err(e) = combine_ok(shape.rule, q_rows, [&parts[0], &parts[1], &parts[2]]) {
        return Ok(Some(("partition", format!("{} — Q∧p: `{}`", e, qp))));
    }
    if let Some(ps) = proj {
        let o = exec::select(db, &ps);
        st.executions += 1;
        match &o {
            Out::Rows(_) => {
                st.count_clause += 1;
                let r = rows_of(&o).unwrap();
                let n = count_true(&r);
                if n != parts[0].len() {
                    return Ok(Some(("count", format!("`{}` returns {} rows but `{}` yields TRUE on {} rows: {}", qp, parts[0].len(), ps, n, val::fmt_bag(&r)))));
                }
                if r.len() != q_rows.len() {
                    return Ok(Some(("count", format!("`{}` returns {} rows, Q returns {}", ps, r.len(), q_rows.len()))));
                }
            }
            Out::Panic(m) => {
                st.panics += 1;
                return Ok(Some(("panic", format!("`{}` panicked: {}", ps, util::trunc(m, 160)))));
            }
            other => return Err(other.brief()),
        }
    }
    Ok(None)
}

pub fn run(tier: &str) -> i32 {
    let mut rep = Report::new("C06", tier, "model_checking");
    let thorough = tier == "thorough";
    vibesql_types::verif::reset();
    let preds = predicates(thorough);
    let hav = having_predicates();
    let shapes: Vec<&Shape> = SHAPES.iter().filter(|s| thorough || !s.thorough_only).collect();
    let index_variants: Vec<&str> = if thorough { vec!["none", "a", "ab", "c"] } else { vec!["none", "a"] };
    // shapes executed on an indexed database (the `indexed table` shape of the property = these)
    let indexed_shapes: &[&str] = if thorough { &["plain", "distinct", "group_count", "global_agg", "join", "view", "having", "join_on"] } else { &["plain", "group_count", "global_agg", "join"] };

    // cases grouped by the column footprint of p
    let mut by_cols: BTreeMap<String, Vec<Case>> = BTreeMap::new();
    for s in &shapes {
        let list: &Vec<P> = if s.having { &hav } else { &preds };
        for p in list {
            let mut c = BTreeSet::new();
            p.cols(&mut c);
            if s.having {
                c.insert('a');
            }
            let key: String = c.into_iter().collect();
            by_cols.entry(key).or_default().push(Case { shape: s, p });
        }
    }
    // work items: (footprint, t rows, u variant index)
    struct Work {
        cols: String,
        t: Vec<[V; 3]>,
        /// position in `index_variants`
        xi: usize,
    }
    let mut work: Vec<Work> = vec![];
    let mut scope_note: BTreeMap<String, Value> = BTreeMap::new();
    for cols in by_cols.keys() {
        let width = cols.len();
        let n = match (thorough, width) {
            (false, 1) => 2,
            (false, _) => 1,
            (true, 1) => 3,
            (true, 2) => 2,
            (true, _) => 1,
        };
        let bags = t_bags(cols, n);
        scope_note.insert(cols.clone(), json!({"max_rows_t": n, "databases_t": bags.len(), "cases": by_cols[cols].len()}));
        for t in bags {
            for (xi, index) in index_variants.iter().enumerate() {
                if (*index == "c" && !cols.contains('c')) || ((*index == "b" || *index == "ab") && !cols.contains('b')) {
                    continue;
                }
                work.push(Work { cols: cols.clone(), t: t.clone(), xi });
            }
        }
    }
    // one table of 720 rows per footprint (the full 3 x 3 x 4 value grid of the three columns, repeated):
    // evaluators that only engage from ~100 rows on (vectorised filters of the DISTINCT / ORDER BY path)
    // are not reached by the 0-3 row tables above
    for cols in by_cols.keys() {
        let mut t: Vec<[V; 3]> = vec![];
        for i in 0..720usize {
            // (+1: the first row holds no NULL — the vectorised path infers column types from row 0)
            t.push([INTS[(i + 1) % INTS.len()].clone(), INTS[(i / INTS.len() + 1) % INTS.len()].clone(), STRS[(i / (INTS.len() * INTS.len()) + 1) % STRS.len()].clone()]);
        }
        work.push(Work { cols: cols.clone(), t, xi: 0 });
    }
    work.sort_by_key(|w| w.t.len());

    if std::env::var("VERIF_C06_DRY").is_ok() {
        let mut total = 0usize;
        for w in &work {
            {
                let index = &index_variants[w.xi];
                let nu = if thorough { U_VARIANTS.len() } else { 1 };
                for c in &by_cols[&w.cols] {
                    if *index != "none" && !indexed_shapes.contains(&c.shape.id) {
                        continue;
                    }
                    total += (if c.shape.needs_u { nu } else { 1 }) * (if c.shape.proj.is_some() { 4 } else { 3 });
                }
            }
        }
        println!("predicates {} (+{} having), databases {}, planned executions about {}", preds.len(), hav.len(), work.len(), total);
        println!("{}", serde_json::to_string(&scope_note).unwrap());
        return 0;
    }
    let stats = Mutex::new(Stats::default());
    let found: Mutex<HashMap<String, Found>> = Mutex::new(HashMap::new());
    let mach: Mutex<Vec<String>> = Mutex::new(vec![]);
    let samples: Mutex<Vec<Value>> = Mutex::new(vec![]);
    let budget_s: f64 = std::env::var("VERIF_C06_BUDGET_S").ok().and_then(|s| s.parse().ok()).unwrap_or(if thorough { 840.0 } else { 1e9 });
    let start = std::time::Instant::now();
    let capped = AtomicU64::new(0);
    let done = AtomicU64::new(0);
    let only_shape = std::env::var("VERIF_C06_SHAPE").ok();
    if only_shape.is_some() {
        rep.set("development_filter", json!(only_shape));
    }

    util::par_map(&work, |wi, w| {
        if start.elapsed().as_secs_f64() > budget_s {
            capped.fetch_add(1, Ordering::Relaxed);
            return;
        }
        let mut st = Stats::default();
        let mut item_cut = false;
        let cases = &by_cols[&w.cols];
        let u_variants: Vec<&[(Option<i64>, i64)]> = if thorough { U_VARIANTS.to_vec() } else { U_VARIANTS[1..2].to_vec() };
        {
            let xi = w.xi;
            let index = &index_variants[xi];
            for (ui, u) in u_variants.iter().enumerate() {
                let stmts = setup_sql(&w.t, u, index);
                let db = match build_engine(&stmts) {
                    Ok(d) => d,
                    Err(e) => {
                        let mut m = mach.lock().unwrap();
                        if m.len() < 5 {
                            m.push(e);
                        }
                        continue;
                    }
                };
                // Q per shape, once
                let mut q_cache: HashMap<&'static str, Option<Rows>> = HashMap::new();
                for c in cases.iter() {
                    if start.elapsed().as_secs_f64() > budget_s {
                        item_cut = true;
                        break;
                    }
                    let s = c.shape;
                    if let Some(f) = &only_shape {
                        if f != s.id {
                            continue;
                        }
                    }
                    if !s.needs_u && ui > 0 {
                        continue; // u does not matter for this shape: once is enough
                    }
                    if *index != "none" && !indexed_shapes.contains(&s.id) {
                        continue;
                    }
                    let q_rows = q_cache.entry(s.id).or_insert_with(|| {
                        st.executions += 1;
                        rows_of(&exec::select(&db, &s.query(None)))
                    });
                    let Some(q_rows) = q_rows.clone() else {
                        let mut m = mach.lock().unwrap();
                        if m.len() < 5 {
                            m.push(format!("the base query `{}` failed", s.query(None)));
                        }
                        continue;
                    };
                    st.cases += 1;
                    *st.per_shape.entry(s.id).or_default() += 1;
                    match check_case(&db, s, c.p, &q_rows, &mut st) {
                        Ok(None) => {}
                        Err(e) => {
                            st.skipped_err += 1;
                            let mut k = BTreeSet::new();
                            c.p.kinds(&mut k);
                            *st.err_kinds.entry(format!("{}:{}: {}", s.id, k.into_iter().collect::<Vec<_>>().join("+"), util::trunc(&e, 60))).or_default() += 1;
                        }
                        Ok(Some((law, text))) => {
                            st.failing += 1;
                            let mut k = BTreeSet::new();
                            c.p.kinds(&mut k);
                            let sig: Vec<(&'static str, String)> = vec![
                                ("law", law.to_string()),
                                ("shape", s.id.to_string()),
                                ("index", index.to_string()),
                                ("atoms", k.into_iter().collect::<Vec<_>>().join("+")),
                                ("structure", c.p.structure()),
                                // the 720-row table reaches size-gated evaluators: its failures are kept apart
                                // from those of the 0-3 row tables, and name the predicate
                                ("table", if w.t.len() >= 100 { "large".to_string() } else { "small".to_string() }),
                                ("pred", if w.t.len() >= 100 { c.p.sql(s.qual) } else { "-".to_string() }),
                            ];
                            let key = sig.iter().map(|(a, b)| format!("{}={}", a, b)).collect::<Vec<_>>().join(";");
                            let order = wi * 64 + xi * 8 + ui;
                            let mut f = found.lock().unwrap();
                            let better = f.get(&key).map(|o| order < o.order).unwrap_or(true);
                            if better {
                                // re-execute twice from scratch
                                let mut same = true;
                                for _ in 0..2 {
                                    let again = build_engine(&stmts).ok().and_then(|d2| {
                                        let q2 = rows_of(&exec::select(&d2, &s.query(None)))?;
                                        let mut tmp = Stats::default();
                                        check_case(&d2, s, c.p, &q2, &mut tmp).ok().flatten()
                                    });
                                    match again {
                                        // the same law must fail again; the description may differ (GROUP BY
                                        // output order follows a per-instance hash seed)
                                        Some((l2, _)) if l2 == law => {}
                                        _ => same = false,
                                    }
                                }
                                if !same {
                                    let mut m = mach.lock().unwrap();
                                    if m.len() < 5 {
                                        m.push(format!("observation not reproducible: shape {} predicate `{}`: {}", s.id, c.p.sql(s.qual), text));
                                    }
                                } else {
                                    let (qp, qn, qu, proj) = case_queries(s, c.p);
                                    let case = json!({"setup": stmts, "shape": s.id, "predicate": c.p.sql(s.qual), "q": s.query(None), "q_p": qp, "q_not_p": qn, "q_p_is_null": qu, "select_p": proj, "rule": format!("{:?}", s.rule)});
                                    let what = format!("shape {} predicate `{}` index {}: {}; t={:?}", s.id, c.p.sql(s.qual), index, text, w.t.iter().map(|r| format!("({},{},{})", lit(&r[0]), lit(&r[1]), lit(&r[2]))).collect::<Vec<_>>());
                                    f.insert(key, Found { order, sig, what, case });
                                }
                            }
                        }
                    }
                }
            }
        }
        if wi % 37 == 5 {
            let mut s = samples.lock().unwrap();
            if s.len() < 6 {
                if let Some(c) = cases.get(wi % cases.len().max(1)) {
                    let (qp, qn, qu, proj) = case_queries(c.shape, c.p);
                    s.push(json!({"setup": setup_sql(&w.t, U_VARIANTS[1], "a"), "q": c.shape.query(None), "q_p": qp, "q_not_p": qn, "q_p_is_null": qu, "select_p": proj}));
                }
            }
        }
        if item_cut {
            capped.fetch_add(1, Ordering::Relaxed);
        }
        let d = done.fetch_add(1, Ordering::Relaxed) + 1;
        let mut g = stats.lock().unwrap();
        g.cases += st.cases;
        g.executions += st.executions;
        g.skipped_err += st.skipped_err;
        g.panics += st.panics;
        g.nontrivial += st.nontrivial;
        g.count_clause += st.count_clause;
        g.failing += st.failing;
        g.outcomes.extend(st.outcomes);
        for (k, v) in st.err_kinds {
            *g.err_kinds.entry(k).or_default() += v;
        }
        for (k, v) in st.per_shape {
            *g.per_shape.entry(k).or_default() += v;
        }
        if d % 20 == 0 && std::env::var("VERIF_PROGRESS").is_ok() {
            eprintln!("  .. {} of {} items, {} cases, {} executions, {:.0}s", d, work.len(), g.cases, g.executions, start.elapsed().as_secs_f64());
        }
    });

    let st = stats.into_inner().unwrap();
    let capped = capped.load(Ordering::Relaxed);
    for m in mach.into_inner().unwrap() {
        rep.machinery_error(m);
    }
    let mut fv: Vec<Found> = found.into_inner().unwrap().into_values().collect();
    fv.sort_by_key(|f| f.order);
    let n_sig = fv.len();
    for f in fv {
        let sig: Vec<(&str, String)> = f.sig.iter().map(|(k, v)| (*k, v.clone())).collect();
        rep.violation(&sig, f.what, f.case);
    }
    let (reach, vac) = vcore::report::reach_json(&["index_scan", "index_where_skip", "columnar_taken", "join_reorder"]);
    let depths: BTreeMap<usize, usize> = preds.iter().fold(BTreeMap::new(), |mut m, p| {
        *m.entry(p.depth()).or_default() += 1;
        m
    });
    rep.set("evaluations", json!(st.executions));
    rep.set("distinct_nontrivial", json!(st.nontrivial));
    rep.set("rule", json!("every (predicate, shape, database, index variant) of the stated bounds is one case (all distinct by construction): Q, Q∧p, Q∧NOT p, Q∧(p IS NULL) and SELECT p are executed by the engine and combined by the shape's rule; a case is non-trivial when at least two of the three parts are non-empty (aggregate shape: Q non-empty)"));
    rep.set("states", json!(work.len()));
    rep.set("databases_times_index_variants", json!(work.len()));
    rep.set("transitions", json!(st.executions));
    rep.set("traces_validated_against_impl", json!(st.executions));
    rep.set("cases", json!(st.cases));
    rep.set("cases_per_shape", json!(st.per_shape));
    rep.set("count_clause_cases", json!(st.count_clause));
    rep.set("cases_skipped_engine_error", json!(st.skipped_err));
    rep.set("engine_errors_by_shape_and_atoms", json!(st.err_kinds));
    rep.set("panics", json!(st.panics));
    rep.set("failing_cases", json!(st.failing));
    rep.set("failing_signatures", json!(n_sig));
    rep.set("distinct_part_results", json!(st.outcomes.len()));
    rep.set("predicates", json!({"total": preds.len(), "by_depth": depths, "having": hav.len()}));
    rep.set("shapes", json!(shapes.iter().map(|s| s.id).collect::<Vec<_>>()));
    rep.set("index_variants", json!(index_variants));
    rep.set("scope_by_column_footprint", json!(scope_note));
    rep.set("exhaustive", json!(capped == 0));
    if capped > 0 {
        rep.set("capped", json!(format!("time budget {} s reached; {} of {} items not run or not completed (items are dispatched in order of database size; what was covered is a prefix of that order up to the threads in flight)", budget_s, capped, work.len())));
    }
    rep.set("reach", reach);
    rep.set("vacuous_mechanisms", vac);
    rep.set("samples", json!(samples.into_inner().unwrap()));
    rep.assume("no reference semantics is used: a predicate evaluated wrongly but identically in WHERE, NOT, IS NULL and the select list is invisible to this check (that is C01's business)");
    rep.assume("a case in which the engine rejects one of the derived queries is skipped and counted");
    println!(
        "C06 {}: {} (database, index variant) items, {} cases ({} non-trivial, {} skipped on engine errors), {} executions, {} distinct part results, {} predicates (by depth {:?}), failing cases {} in {} signatures",
        tier,
        work.len(),
        st.cases,
        st.nontrivial,
        st.skipped_err,
        st.executions,
        st.outcomes.len(),
        preds.len(),
        depths,
        st.failing,
        n_sig
    );
    if !st.err_kinds.is_empty() {
        println!("  engine errors (cases skipped): {:?}", st.err_kinds.iter().take(6).collect::<Vec<_>>());
    }
    rep.finish()
}

// =============================================================================================
// replay
// =============================================================================================

pub fn replay(case: &Value) -> i32 {
    let setup: Vec<String> = case["setup"].as_array().map(|a| a.iter().filter_map(|s| s.as_str().map(|x| x.to_string())).collect()).unwrap_or_default();
    let db = match build_engine(&setup) {
        Ok(d) => d,
        Err(e) => {
            eprintln!("MACHINERY-ERROR {}", e);
            return 2;
        }
    };
    for s in &setup {
        println!("  {}", s);
    }
    let rule = match case["rule"].as_str() {
        Some("Set") => Rule::Set,
        Some("GroupCount") => Rule::GroupCount,
        Some("CountSum") => Rule::CountSum,
        _ => Rule::Bag,
    };
    let mut res: Vec<Option<Rows>> = vec![];
    for k in ["q", "q_p", "q_not_p", "q_p_is_null", "select_p"] {
        if let Some(sql) = case[k].as_str() {
            let o = exec::select(&db, sql);
            println!("{:<12} {}\n             => {}", k, sql, o.brief());
            res.push(rows_of(&o));
        } else {
            res.push(None);
        }
    }
    let (Some(q), Some(p), Some(n), Some(u)) = (&res[0], &res[1], &res[2], &res[3]) else {
        println!("replay: one of the queries no longer returns rows");
        return 1;
    };
    let mut bad = false;
    if let Err(e) = combine_ok(rule, q, [p, n, u]) {
        println!("partition law violated: {}", e);
        bad = true;
    }
    if let Some(sp) = &res[4] {
        if count_true(sp) != p.len() {
            println!("count law violated: WHERE p keeps {} rows, SELECT p is TRUE on {}", p.len(), count_true(sp));
            bad = true;
        }
    }
    if bad {
        println!("replay: violation reproduced");
        1
    } else {
        println!("replay: both laws hold now");
        0
    }
}
