use vcore::exec;

// Every SelectExecutor allocates a zeroed 10 MiB arena per query; pool those blocks (see vcore::bigalloc)
#[global_allocator]
static GLOBAL: vcore::bigalloc::ArenaCache = vcore::bigalloc::ArenaCache;

fn usage() -> ! {
    eprintln!("usage: vcheck check <ID> <quick|thorough> | vcheck replay <path> | vcheck sql <stmt>...");
    std::process::exit(2)
}

fn main() {
    let args: Vec<String> = std::env::args().collect();
    if args.len() < 2 {
        usage();
    }
    // fixed parallelism configuration unless a check sets it itself (C04 spawns workers)
    if std::env::var("PARALLEL_THRESHOLD").is_err() {
        std::env::set_var("PARALLEL_THRESHOLD", "max");
    }
    match args[1].as_str() {
        "check" => {
            if args.len() < 4 {
                usage();
            }
            exec::silence_panics();
            let code = vcore::checks::run(&args[2], &args[3]);
            std::process::exit(code);
        }
        "replay" => {
            if args.len() < 3 {
                usage();
            }
            std::process::exit(vcore::replay::replay(&args[2]));
        }
        "sql" => {
            let mut db = vibesql_storage::Database::new();
            for s in &args[2..] {
                let o = exec::exec(&mut db, s);
                println!("{}\n   => {}", s, o.brief());
            }
        }
        _ => usage(),
    }
}
