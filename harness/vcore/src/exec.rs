//! Execute SQL text / statements on the real vibesql engine, with panics caught.

use std::panic::{catch_unwind, AssertUnwindSafe};

use vibesql_ast::Statement;
use vibesql_executor as ve;
use vibesql_executor::ExecutorError;
use vibesql_parser::Parser;
use vibesql_storage::Database;
use vibesql_types::SqlValue;

#[derive(Debug, Clone, PartialEq)]
pub enum Out {
    Rows(Vec<Vec<SqlValue>>),
    Count(usize),
    Done,
    /// class, message
    Err(ErrClass, String),
    Panic(String),
}

#[derive(Debug, Clone, Copy, PartialEq, Eq, Hash, PartialOrd, Ord)]
pub enum ErrClass {
    Parse,
    Permission,
    Constraint,
    NotFound,
    Other,
}

impl Out {
    pub fn is_ok(&self) -> bool {
        matches!(self, Out::Rows(_) | Out::Count(_) | Out::Done)
    }
    pub fn is_err(&self) -> bool {
        matches!(self, Out::Err(..))
    }
    pub fn is_panic(&self) -> bool {
        matches!(self, Out::Panic(_))
    }
    pub fn rows(&self) -> Option<&Vec<Vec<SqlValue>>> {
        match self {
            Out::Rows(r) => Some(r),
            _ => None,
        }
    }
    pub fn count(&self) -> Option<usize> {
        match self {
            Out::Count(n) => Some(*n),
            _ => None,
        }
    }
    /// Short class string: ok / err / panic
    pub fn class(&self) -> &'static str {
        match self {
            Out::Rows(_) | Out::Count(_) | Out::Done => "ok",
            Out::Err(..) => "err",
            Out::Panic(_) => "panic",
        }
    }
    pub fn brief(&self) -> String {
        match self {
            Out::Rows(r) => format!("rows{}", crate::val::fmt_rows(r)),
            Out::Count(n) => format!("count({})", n),
            Out::Done => "ok".into(),
            Out::Err(c, m) => format!("err[{:?}]: {}", c, crate::util::trunc(m, 160)),
            Out::Panic(m) => format!("PANIC: {}", crate::util::trunc(m, 200)),
        }
    }
}

fn classify(e: &ExecutorError) -> ErrClass {
    match e {
        ExecutorError::PermissionDenied { .. } => ErrClass::Permission,
        ExecutorError::ConstraintViolation(_) => ErrClass::Constraint,
        ExecutorError::TableNotFound(_)
        | ExecutorError::ColumnNotFound { .. }
        | ExecutorError::IndexNotFound(_)
        | ExecutorError::TriggerNotFound(_)
        | ExecutorError::SchemaNotFound(_)
        | ExecutorError::RoleNotFound(_) => ErrClass::NotFound,
        _ => ErrClass::Other,
    }
}

fn ee(e: ExecutorError) -> Out {
    Out::Err(classify(&e), format!("{}", e))
}

pub fn panic_msg(p: Box<dyn std::any::Any + Send>) -> String {
    if let Some(s) = p.downcast_ref::<String>() {
        s.clone()
    } else if let Some(s) = p.downcast_ref::<&str>() {
        s.to_string()
    } else {
        "<non-string panic>".into()
    }
}

/// Install a silent panic hook (panics are caught and reported as `Out::Panic`).
pub fn silence_panics() {
    std::panic::set_hook(Box::new(|_| {}));
}

pub fn parse(sql: &str) -> Result<Statement, String> {
    match catch_unwind(|| Parser::parse_sql(sql)) {
        Ok(Ok(s)) => Ok(s),
        Ok(Err(e)) => Err(format!("{}", e)),
        Err(p) => Err(format!("PANIC in parser: {}", panic_msg(p))),
    }
}

/// Parse and execute one SQL statement.
pub fn exec(db: &mut Database, sql: &str) -> Out {
    let stmt = match catch_unwind(|| Parser::parse_sql(sql)) {
        Ok(Ok(s)) => s,
        Ok(Err(e)) => return Out::Err(ErrClass::Parse, format!("{}", e)),
        Err(p) => return Out::Panic(format!("parser: {}", panic_msg(p))),
    };
    exec_stmt(db, &stmt)
}

/// Execute a parsed statement (dispatch mirrors the repo's own front-ends).
pub fn exec_stmt(db: &mut Database, stmt: &Statement) -> Out {
    match catch_unwind(AssertUnwindSafe(|| exec_stmt_inner(db, stmt))) {
        Ok(o) => o,
        Err(p) => Out::Panic(panic_msg(p)),
    }
}

pub fn select(db: &Database, sql: &str) -> Out {
    let stmt = match catch_unwind(|| Parser::parse_sql(sql)) {
        Ok(Ok(s)) => s,
        Ok(Err(e)) => return Out::Err(ErrClass::Parse, format!("{}", e)),
        Err(p) => return Out::Panic(format!("parser: {}", panic_msg(p))),
    };
    match stmt {
        Statement::Select(s) => select_stmt(db, &s),
        _ => Out::Err(ErrClass::Other, "not a SELECT".into()),
    }
}

pub fn select_stmt(db: &Database, s: &vibesql_ast::SelectStmt) -> Out {
    match catch_unwind(AssertUnwindSafe(|| {
        let ex = ve::SelectExecutor::new(db);
        ex.execute(s)
    })) {
        Ok(Ok(rows)) => Out::Rows(rows.into_iter().map(|r| r.values).collect()),
        Ok(Err(e)) => ee(e),
        Err(p) => Out::Panic(panic_msg(p)),
    }
}

fn unit<T>(r: Result<T, ExecutorError>) -> Out {
    match r {
        Ok(_) => Out::Done,
        Err(e) => ee(e),
    }
}

fn cnt(r: Result<usize, ExecutorError>) -> Out {
    match r {
        Ok(n) => Out::Count(n),
        Err(e) => ee(e),
    }
}

fn st<T>(r: Result<T, vibesql_storage::StorageError>) -> Out {
    match r {
        Ok(_) => Out::Done,
        Err(e) => Out::Err(ErrClass::Other, format!("{}", e)),
    }
}

fn exec_stmt_inner(db: &mut Database, stmt: &Statement) -> Out {
    use Statement as S;
    match stmt {
        S::Select(s) => {
            if let Some(target) = &s.into_table {
                return unit(ve::SelectIntoExecutor::execute(s, target, db));
            }
            let ex = ve::SelectExecutor::new(db);
            match ex.execute(s) {
                Ok(rows) => Out::Rows(rows.into_iter().map(|r| r.values).collect()),
                Err(e) => ee(e),
            }
        }
        S::Insert(s) => cnt(ve::InsertExecutor::execute(db, s)),
        S::Update(s) => cnt(ve::UpdateExecutor::execute(s, db)),
        S::Delete(s) => cnt(ve::DeleteExecutor::execute(s, db)),
        S::CreateTable(s) => unit(ve::CreateTableExecutor::execute(s, db)),
        S::DropTable(s) => unit(ve::DropTableExecutor::execute(s, db)),
        S::TruncateTable(s) => cnt(ve::TruncateTableExecutor::execute(s, db)),
        S::AlterTable(s) => unit(ve::AlterTableExecutor::execute(s, db)),
        S::CreateSchema(s) => unit(ve::SchemaExecutor::execute_create_schema(s, db)),
        S::DropSchema(s) => unit(ve::SchemaExecutor::execute_drop_schema(s, db)),
        S::SetSchema(s) => unit(ve::SchemaExecutor::execute_set_schema(s, db)),
        S::SetVariable(s) => unit(ve::SchemaExecutor::execute_set_variable(s, db)),
        S::Grant(s) => unit(ve::GrantExecutor::execute_grant(s, db)),
        S::Revoke(s) => unit(ve::RevokeExecutor::execute_revoke(s, db)),
        S::CreateRole(s) => unit(ve::RoleExecutor::execute_create_role(s, db)),
        S::DropRole(s) => unit(ve::RoleExecutor::execute_drop_role(s, db)),
        S::CreateView(s) => unit(ve::advanced_objects::execute_create_view(s, db)),
        S::DropView(s) => unit(ve::advanced_objects::execute_drop_view(s, db)),
        S::CreateIndex(s) => unit(ve::IndexExecutor::execute(s, db)),
        S::DropIndex(s) => unit(ve::IndexExecutor::execute_drop(s, db)),
        S::Analyze(s) => unit(ve::AnalyzeExecutor::execute(s, db)),
        S::Reindex(s) => unit(ve::IndexExecutor::execute_reindex(s, db)),
        S::CreateTrigger(s) => unit(ve::TriggerExecutor::create_trigger(db, s)),
        S::DropTrigger(s) => unit(ve::TriggerExecutor::drop_trigger(db, s)),
        S::BeginTransaction(s) => unit(ve::BeginTransactionExecutor::execute(s, db)),
        S::Commit(s) => unit(ve::CommitExecutor::execute(s, db)),
        S::Rollback(s) => unit(ve::RollbackExecutor::execute(s, db)),
        S::Savepoint(s) => unit(ve::SavepointExecutor::execute(s, db)),
        S::RollbackToSavepoint(s) => unit(ve::RollbackToSavepointExecutor::execute(s, db)),
        S::ReleaseSavepoint(s) => unit(ve::ReleaseSavepointExecutor::execute(s, db)),
        _ => {
            let _ = st::<()>(Ok(()));
            Out::Err(ErrClass::Other, "statement kind not dispatched by harness".into())
        }
    }
}

/// Execute a list of statements; panics (the harness') if any fails. For fixed preludes.
pub fn must(db: &mut Database, sql: &str) {
    let o = exec(db, sql);
    if !o.is_ok() {
        panic!("harness prelude statement failed: {} => {}", sql, o.brief());
    }
}

pub fn fresh(prelude: &[&str]) -> Database {
    let mut db = Database::new();
    for s in prelude {
        must(&mut db, s);
    }
    db
}
