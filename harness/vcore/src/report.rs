//! Evidence files, violation collection, known-findings protocol (DESIGN R2, R5, R6, R7).

use std::collections::BTreeMap;
use std::io::Write;
use std::sync::Mutex;
use std::time::Instant;

use serde_json::{json, Map, Value};

pub const VERIF_ROOT: &str = "/verif";

#[derive(Debug, Clone)]
pub struct Violation {
    /// feature vector computed from the failing *input* only
    pub sig: BTreeMap<String, String>,
    /// human readable: what was expected, what was observed
    pub what: String,
    /// the minimal case: steps (SQL or op descriptions) and anything needed for replay
    pub case: Value,
}

pub struct Report {
    pub id: String,
    pub tier: String,
    pub level: String,
    pub seed: i64,
    pub start: Instant,
    pub coverage: Map<String, Value>,
    pub assumptions: Vec<String>,
    violations: Mutex<Vec<Violation>>,
    pub total_failing_cases: std::sync::atomic::AtomicU64,
    /// machinery errors (exit 2)
    pub machinery_errors: Mutex<Vec<String>>,
}

fn sig_key(sig: &BTreeMap<String, String>) -> String {
    sig.iter().map(|(k, v)| format!("{}={}", k, v)).collect::<Vec<_>>().join(";")
}

impl Report {
    pub fn new(id: &str, tier: &str, level: &str) -> Self {
        let seed = std::env::var("VERIF_SEED").ok().and_then(|s| s.parse().ok()).unwrap_or(0);
        Report {
            id: id.to_string(),
            tier: tier.to_string(),
            level: level.to_string(),
            seed,
            start: Instant::now(),
            coverage: Map::new(),
            assumptions: vec![],
            violations: Mutex::new(vec![]),
            total_failing_cases: Default::default(),
            machinery_errors: Mutex::new(vec![]),
        }
    }

    pub fn quick(&self) -> bool {
        self.tier != "thorough"
    }

    pub fn set(&mut self, k: &str, v: Value) {
        self.coverage.insert(k.to_string(), v);
    }

    pub fn assume(&mut self, s: &str) {
        self.assumptions.push(s.to_string());
    }

    /// Record a failing case. Cases with a signature already recorded are counted but only
    /// the first (smallest, since enumeration is simplest-first) witness is kept.
    pub fn violation(&self, sig: &[(&str, String)], what: String, case: Value) {
        self.total_failing_cases.fetch_add(1, std::sync::atomic::Ordering::Relaxed);
        let sig: BTreeMap<String, String> = sig.iter().map(|(k, v)| (k.to_string(), v.clone())).collect();
        let mut v = self.violations.lock().unwrap();
        let key = sig_key(&sig);
        if v.iter().any(|x| sig_key(&x.sig) == key) {
            return;
        }
        v.push(Violation { sig, what, case });
    }

    pub fn merge_violations(&self, vs: Vec<Violation>, failing: u64) {
        self.total_failing_cases.fetch_add(failing, std::sync::atomic::Ordering::Relaxed);
        let mut v = self.violations.lock().unwrap();
        for x in vs {
            let key = sig_key(&x.sig);
            if !v.iter().any(|y| sig_key(&y.sig) == key) {
                v.push(x);
            }
        }
    }

    pub fn machinery_error(&self, s: String) {
        self.machinery_errors.lock().unwrap().push(s);
    }

    pub fn n_signatures(&self) -> usize {
        self.violations.lock().unwrap().len()
    }

    /// Write evidence, print KNOWN-FINDING / VIOLATION lines, return exit code.
    pub fn finish(mut self) -> i32 {
        let wall = self.start.elapsed().as_secs_f64();
        let violations = std::mem::take(&mut *self.violations.lock().unwrap());
        let mach = std::mem::take(&mut *self.machinery_errors.lock().unwrap());
        let findings = load_findings(&self.id);

        let mut known_hit: BTreeMap<String, (String, usize)> = BTreeMap::new();
        let mut unknown: Vec<(Violation, String)> = vec![];
        for v in violations {
            let mut matched = None;
            for f in &findings {
                if f.sig.iter().all(|(k, want)| v.sig.get(k).map(|x| x == want).unwrap_or(false)) {
                    matched = Some(f);
                    break;
                }
            }
            match matched {
                Some(f) => {
                    let e = known_hit.entry(f.key.clone()).or_insert((f.what.clone(), 0));
                    e.1 += 1;
                }
                None => {
                    let path = write_replay(&self.id, &v);
                    unknown.push((v, path));
                }
            }
        }

        for (k, (what, _n)) in &known_hit {
            println!("KNOWN-FINDING: property={} {} [{}]", self.id, what, k);
        }
        for (v, path) in &unknown {
            println!("VIOLATION property={} replay={}", self.id, path);
            println!("  signature: {}", sig_key(&v.sig));
            println!("  what: {}", crate::util::trunc(&v.what, 600));
        }
        for m in &mach {
            eprintln!("MACHINERY-ERROR property={} {}", self.id, m);
        }

        let mut cov = self.coverage.clone();
        cov.insert("known_findings_hit".into(), json!(known_hit.keys().collect::<Vec<_>>()));
        cov.insert(
            "failing_cases_total".into(),
            json!(self.total_failing_cases.load(std::sync::atomic::Ordering::Relaxed)),
        );
        cov.insert("new_violation_signatures".into(), json!(unknown.iter().map(|(v, _)| sig_key(&v.sig)).collect::<Vec<_>>()));
        if !cov.contains_key("traces_validated_against_impl") {
            if let Some(t) = cov.get("transitions").cloned() {
                // the model *is* driven by the implementation: every transition executes real code
                cov.insert("traces_validated_against_impl".into(), t);
            }
        }
        let ev = json!({
            "property_id": self.id,
            "tier": if self.tier == "thorough" { "thorough" } else { "quick" },
            "seed": self.seed,
            "level": self.level,
            "coverage": Value::Object(cov),
            "assumptions": self.assumptions,
            "wall_s": wall,
            "violations": unknown.len(),
        });
        let dir = format!("{}/evidence", VERIF_ROOT);
        let _ = std::fs::create_dir_all(&dir);
        let path = format!("{}/{}.json", dir, self.id);
        match std::fs::File::create(&path) {
            Ok(mut f) => {
                let _ = f.write_all(serde_json::to_string_pretty(&ev).unwrap().as_bytes());
                let _ = f.write_all(b"\n");
            }
            Err(e) => {
                eprintln!("MACHINERY-ERROR cannot write evidence {}: {}", path, e);
                return 2;
            }
        }
        println!(
            "property={} tier={} wall_s={:.1} known_findings_hit={} new_violations={}",
            self.id,
            self.tier,
            wall,
            known_hit.len(),
            unknown.len()
        );
        if !mach.is_empty() {
            return 2;
        }
        if !unknown.is_empty() {
            return 1;
        }
        0
    }
}

pub struct Finding {
    pub key: String,
    pub what: String,
    pub sig: BTreeMap<String, String>,
}

/// Open findings for a property from /verif/known_findings.jsonl (read-only at run time).
pub fn load_findings(id: &str) -> Vec<Finding> {
    let path = format!("{}/known_findings.jsonl", VERIF_ROOT);
    let mut out = vec![];
    let Ok(text) = std::fs::read_to_string(&path) else { return out };
    for line in text.lines() {
        let line = line.trim();
        if line.is_empty() || line.starts_with('#') {
            continue;
        }
        let Ok(v) = serde_json::from_str::<Value>(line) else { continue };
        if v.get("property").and_then(|x| x.as_str()) != Some(id) {
            continue;
        }
        if v.get("status").and_then(|x| x.as_str()) != Some("open") {
            continue; // fixed entries suppress nothing
        }
        let mut sig = BTreeMap::new();
        if let Some(m) = v.get("signature").and_then(|x| x.as_object()) {
            for (k, val) in m {
                sig.insert(k.clone(), val.as_str().map(|s| s.to_string()).unwrap_or_else(|| val.to_string()));
            }
        }
        if sig.is_empty() {
            continue; // a finding without a signature can never match (would suppress everything)
        }
        out.push(Finding {
            key: v.get("key").and_then(|x| x.as_str()).unwrap_or("?").to_string(),
            what: v.get("what").and_then(|x| x.as_str()).unwrap_or("").to_string(),
            sig,
        });
    }
    out
}

fn write_replay(id: &str, v: &Violation) -> String {
    let dir = format!("{}/replays/{}", VERIF_ROOT, id);
    let _ = std::fs::create_dir_all(&dir);
    let key = sig_key(&v.sig);
    let h = crate::util::hash64(key.as_bytes());
    let path = format!("{}/{:016x}.json", dir, h);
    let body = json!({
        "property": id,
        "signature": v.sig,
        "what": v.what,
        "case": v.case,
    });
    if let Ok(mut f) = std::fs::File::create(&path) {
        let _ = f.write_all(serde_json::to_string_pretty(&body).unwrap().as_bytes());
        let _ = f.write_all(b"\n");
    }
    path
}

/// Reach counters (hook H1) as JSON; also lists expected-but-zero mechanisms.
pub fn reach_json(expected: &[&str]) -> (Value, Value) {
    let snap = vibesql_types::verif::snapshot();
    let mut m = Map::new();
    let mut vac = vec![];
    for (k, v) in snap {
        if v > 0 || expected.contains(&k) {
            m.insert(k.to_string(), json!(v));
        }
        if expected.contains(&k) && v == 0 {
            vac.push(k.to_string());
        }
    }
    (Value::Object(m), json!(vac))
}
