//! Value normalisation for by-value comparison of results (DESIGN R1).

use vibesql_types::SqlValue;

/// Canonical, totally ordered key for a value; numbers compare by value.
#[derive(Debug, Clone, PartialEq, Eq, PartialOrd, Ord, Hash)]
pub enum NV {
    Null,
    Int(i128),
    /// non-integral or huge float, as rounded decimal text
    Flt(String),
    Str(String),
    Other(String),
}

fn norm_f64(x: f64) -> NV {
    if x.is_nan() {
        return NV::Flt("NaN".into());
    }
    if x.is_infinite() {
        return NV::Flt(if x > 0.0 { "inf".into() } else { "-inf".into() });
    }
    if x == x.trunc() && x.abs() < 9.0e15 {
        return NV::Int(x as i128);
    }
    // 12 significant digits
    NV::Flt(format!("{:.11e}", x))
}

/// Normalise: booleans -> 0/1, all numeric variants by value, CHAR/VARCHAR same.
pub fn norm(v: &SqlValue) -> NV {
    match v {
        SqlValue::Null => NV::Null,
        SqlValue::Integer(i) | SqlValue::Bigint(i) => NV::Int(*i as i128),
        SqlValue::Smallint(i) => NV::Int(*i as i128),
        SqlValue::Unsigned(u) => NV::Int(*u as i128),
        SqlValue::Numeric(f) | SqlValue::Double(f) => norm_f64(*f),
        SqlValue::Float(f) | SqlValue::Real(f) => norm_f64(*f as f64),
        SqlValue::Boolean(b) => NV::Int(*b as i128),
        SqlValue::Character(s) | SqlValue::Varchar(s) => NV::Str(s.clone()),
        other => NV::Other(format!("{:?}", other)),
    }
}

pub fn norm_row(r: &[SqlValue]) -> Vec<NV> {
    r.iter().map(norm).collect()
}

/// Sorted bag of normalised rows.
pub fn bag(rows: &[Vec<SqlValue>]) -> Vec<Vec<NV>> {
    let mut b: Vec<Vec<NV>> = rows.iter().map(|r| norm_row(r)).collect();
    b.sort();
    b
}

pub fn seq(rows: &[Vec<SqlValue>]) -> Vec<Vec<NV>> {
    rows.iter().map(|r| norm_row(r)).collect()
}

pub fn same_bag(a: &[Vec<SqlValue>], b: &[Vec<SqlValue>]) -> bool {
    bag(a) == bag(b)
}

pub fn fmt_nv(v: &NV) -> String {
    match v {
        NV::Null => "NULL".into(),
        NV::Int(i) => i.to_string(),
        NV::Flt(s) => s.clone(),
        NV::Str(s) => format!("'{}'", s),
        NV::Other(s) => s.clone(),
    }
}

pub fn fmt_bag(b: &[Vec<NV>]) -> String {
    let rows: Vec<String> = b
        .iter()
        .take(12)
        .map(|r| format!("({})", r.iter().map(fmt_nv).collect::<Vec<_>>().join(",")))
        .collect();
    let more = if b.len() > 12 { format!(",…+{}", b.len() - 12) } else { String::new() };
    format!("[{}{}]", rows.join(","), more)
}

pub fn fmt_rows(rows: &[Vec<SqlValue>]) -> String {
    fmt_bag(&seq(rows))
}

/// Bit-exact rendering (for round-trip checks where -0.0 != 0.0 and NaN == NaN).
pub fn exact(v: &SqlValue) -> String {
    match v {
        SqlValue::Numeric(f) => format!("Numeric#{:016x}", f.to_bits()),
        SqlValue::Double(f) => format!("Double#{:016x}", f.to_bits()),
        SqlValue::Float(f) => format!("Float#{:08x}", f.to_bits()),
        SqlValue::Real(f) => format!("Real#{:08x}", f.to_bits()),
        other => format!("{:?}", other),
    }
}

pub fn exact_bag(rows: &[Vec<SqlValue>]) -> Vec<Vec<String>> {
    let mut b: Vec<Vec<String>> = rows.iter().map(|r| r.iter().map(exact).collect()).collect();
    b.sort();
    b
}
