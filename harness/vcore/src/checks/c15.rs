//! C15 — index structures always mirror table contents (DESIGN §5 C15).

use std::collections::{BTreeMap, HashMap};

use serde_json::json;
use vibesql_storage::Database;
use vibesql_types::SqlValue;

use crate::exec::{self, Out};
use crate::histmc::{self, Caps, Node, Spec};
use crate::obs;
use crate::report::Report;
use crate::val;

pub const PRELUDE: &[&str] = &["CREATE TABLE t (id INT PRIMARY KEY, v INT, s VARCHAR(10), w INT UNIQUE)"];


fn ops(thorough: bool) -> Vec<String> {
    let mut a: Vec<&str> = vec![
        "INSERT INTO t VALUES (1, 10, 'a', 100)",
        "INSERT INTO t VALUES (2, 20, 'b', 200)",
        "INSERT INTO t VALUES (3, 10, 'ab', 300)",
        "INSERT INTO t VALUES (4, NULL, NULL, NULL)",
        "INSERT INTO t VALUES (5, 50, 'abc', 500), (6, 20, 'b', 600)",
        "UPDATE t SET v = 30 WHERE id = 1",
        "UPDATE t SET v = v + 1",
        "UPDATE t SET s = 'zz' WHERE id = 2",
        "UPDATE t SET id = id + 10 WHERE id = 3",
        "UPDATE t SET w = 999 WHERE id = 1",
        // NULL transitions of the UNIQUE column and of the indexed column (value -> NULL, NULL -> value)
        "UPDATE t SET w = NULL WHERE id = 1",
        "UPDATE t SET w = 100 WHERE id = 4",
        "UPDATE t SET v = NULL WHERE id = 2",
        "UPDATE t SET v = 20 WHERE id = 4",
        "DELETE FROM t WHERE id = 1",
        "DELETE FROM t WHERE v = 10",
        "DELETE FROM t WHERE v > 15",
        "DELETE FROM t",
        "TRUNCATE TABLE t",
        "CREATE INDEX iv ON t (v)",
        "CREATE INDEX ivs ON t (v, s)",
        "DROP INDEX iv",
        "BEGIN",
        "ROLLBACK",
        "COMMIT",
    ];
    if thorough {
        a.extend([
            "CREATE INDEX isp ON t (s(1))",
            "CREATE UNIQUE INDEX uvd ON t (v DESC)",
            "SAVEPOINT s1",
            "ROLLBACK TO SAVEPOINT s1",
            "ALTER TABLE t ADD COLUMN z INT",
            "#RELOAD",
        ]);
    }
    a.into_iter().map(|s| s.to_string()).collect()
}

struct C15Spec {
    ops: Vec<String>,
    scratch: String,
}

fn case(hist: &[String]) -> serde_json::Value {
    json!({"prelude": PRELUDE, "steps": hist, "probes": ["SELECT * FROM t", "SELECT id FROM t WHERE v = 10", "SELECT id FROM t WHERE v >= 10", "SELECT id FROM t WHERE v = 20"]})
}

fn hist_features(hist: &[String]) -> (String, String) {
    // which position-shifting / clearing statement kinds precede (features of the input)
    let mut f = vec![];
    let has = |p: &str| hist.iter().any(|h| h.starts_with(p));
    if has("DELETE FROM t WHERE") {
        f.push("delete_where");
    }
    if hist.iter().any(|h| h == "DELETE FROM t") {
        f.push("delete_all");
    }
    if has("TRUNCATE") {
        f.push("truncate");
    }
    if has("UPDATE t SET id") {
        f.push("update_pk");
    }
    if has("ROLLBACK TO") {
        f.push("rollback_to");
    } else if has("ROLLBACK") {
        f.push("rollback");
    }
    if has("ALTER") {
        f.push("alter");
    }
    if has("#RELOAD") {
        f.push("reload");
    }
    let last = hist.last().map(|h| h.split_whitespace().take(2).collect::<Vec<_>>().join(" ")).unwrap_or_default();
    (f.join("+"), last)
}

fn recomputed_key_map(rows: &[Vec<SqlValue>], cols: &[usize]) -> BTreeMap<String, usize> {
    let mut m = BTreeMap::new();
    for (pos, r) in rows.iter().enumerate() {
        let key: Vec<&SqlValue> = cols.iter().map(|c| &r[*c]).collect();
        if key.iter().any(|k| k.is_null()) {
            continue;
        }
        m.insert(key.iter().map(|k| val::exact(k)).collect::<Vec<_>>().join("|"), pos);
    }
    m
}

fn hash_index_map(h: &HashMap<Vec<SqlValue>, usize>) -> BTreeMap<String, usize> {
    h.iter().map(|(k, v)| (k.iter().map(val::exact).collect::<Vec<_>>().join("|"), *v)).collect()
}

/// Checks (1)-(3) of DESIGN C15 on one state; returns (aspect, description) of the first mismatch.
/// CREATE INDEX statement rendered from the index's *current* registry metadata (its definition as
/// the database knows it now; a definition lost by a reload is C18's business, not C15's).
pub fn index_sql_from_meta(db: &Database, name: &str) -> Option<String> {
    let m = db.get_index(name)?;
    let cols: Vec<String> = m
        .columns
        .iter()
        .map(|c| {
            let mut s = c.column_name.clone();
            if let Some(p) = c.prefix_length {
                s.push_str(&format!("({})", p));
            }
            if matches!(c.direction, vibesql_ast::OrderDirection::Desc) {
                s.push_str(" DESC");
            }
            s
        })
        .collect();
    Some(format!("CREATE {}INDEX {} ON {} ({})", if m.unique { "UNIQUE " } else { "" }, m.index_name, m.table_name, cols.join(", ")))
}

pub fn check_state(db: &Database, index_sql: &dyn Fn(&str) -> Option<String>) -> Option<(String, String)> {
    for key in obs::table_keys(db) {
        let t = &db.tables[&key];
        let rows: Vec<Vec<SqlValue>> = t.scan().iter().map(|r| r.values.clone()).collect();
        // (1) constraint hash indexes vs recomputation from scan()
        if let Some(pk) = t.schema.get_primary_key_indices() {
            let want = recomputed_key_map(&rows, &pk);
            match t.primary_key_index() {
                Some(h) => {
                    let got = hash_index_map(h);
                    if got != want {
                        return Some(("pk_hash_index".into(), format!("primary_key_index of {} is {:?}, rows give {:?}", key, got, want)));
                    }
                }
                None => return Some(("pk_hash_index_missing".into(), format!("table {} has a PRIMARY KEY but no primary_key_index", key))),
            }
        }
        let uniq = t.schema.get_unique_constraint_indices();
        let uidx = t.unique_indexes();
        for (i, cols) in uniq.iter().enumerate() {
            let want = recomputed_key_map(&rows, cols);
            match uidx.get(i) {
                Some(h) => {
                    let got = hash_index_map(h);
                    if got != want {
                        return Some(("unique_hash_index".into(), format!("unique index #{} of {} is {:?}, rows give {:?}", i, key, got, want)));
                    }
                }
                None => return Some(("unique_hash_index_missing".into(), format!("table {} lacks unique index #{}", key, i))),
            }
        }
    }
    // (2) user indexes vs the same index re-created from scratch on a clone
    let mut names = db.list_indexes();
    names.sort();
    for name in names {
        let Some(sql) = index_sql(&name) else { continue };
        let Some(live) = obs::index_map(db, &name) else { continue };
        let mut c = db.clone();
        if c.in_transaction() {
            let _ = c.commit_transaction();
        }
        let d = exec::exec(&mut c, &format!("DROP INDEX {}", name));
        let r = exec::exec(&mut c, &sql);
        if !d.is_ok() || !r.is_ok() {
            // e.g. a unique index cannot be rebuilt because the data has duplicates: C10's business
            continue;
        }
        let Some(fresh) = obs::index_map(&c, &name) else { continue };
        if live != fresh {
            return Some((format!("user_index"), format!("index {} holds {:?} but a rebuild from the current rows gives {:?}", name, live, fresh)));
        }
    }
    None
}

impl Spec for C15Spec {
    type M = ();
    fn init(&self) -> Vec<Node<()>> {
        vec![Node { db: exec::fresh(PRELUDE), model: (), hist: vec![] }]
    }
    fn alphabet(&self, _db: &Database, _m: &(), _h: &[String]) -> Vec<String> {
        self.ops.clone()
    }
    fn apply(&self, db: &mut Database, op: &str) -> Out {
        if op == "#RELOAD" {
            if db.in_transaction() {
                return Out::Err(exec::ErrClass::Other, "reload inside a transaction is not explored".into());
            }
            let path = format!("{}/c15-{:?}-{}.vbsql", self.scratch, std::thread::current().id(), std::process::id());
            let r = std::panic::catch_unwind(std::panic::AssertUnwindSafe(|| -> Result<Database, String> {
                db.save_binary(&path).map_err(|e| e.to_string())?;
                Database::load_binary(&path).map_err(|e| e.to_string())
            }));
            let _ = std::fs::remove_file(&path);
            return match r {
                Ok(Ok(d2)) => {
                    *db = d2;
                    Out::Done
                }
                Ok(Err(e)) => Out::Err(exec::ErrClass::Other, e),
                Err(p) => Out::Panic(exec::panic_msg(p)),
            };
        }
        exec::exec(db, op)
    }
    fn step(&self, _pre: &Database, _m: &(), op: &str, post: &Database, out: &Out, hist: &[String], rep: &Report) -> Option<()> {
        // a panicking statement is property C24's business; what matters here is whether the state
        // it left behind still has indexes that mirror the tables (checked below), then the branch ends
        let panicked = out.is_panic();
        let lookup = |name: &str| index_sql_from_meta(post, name);
        if let Some((aspect, what)) = check_state(post, &lookup) {
            let (feat, last) = hist_features(hist);
            rep.violation(&[("aspect", aspect), ("history", feat), ("last", last)], format!("after {:?}: {}", hist, what), case(hist));
            return None;
        }
        if panicked {
            return None;
        }
        Some(())
    }
}

pub fn run(tier: &str) -> i32 {
    let mut rep = Report::new("C15", tier, "model_checking");
    vibesql_types::verif::reset();
    let thorough = tier == "thorough";
    let scratch = format!("/verif/.build/scratch/c15-{}", std::process::id());
    let _ = std::fs::create_dir_all(&scratch);
    let spec = C15Spec { ops: ops(thorough), scratch: scratch.clone() };
    let (d_state, d_tree) = if thorough { (6, 3) } else { (4, 3) };
    let caps = Caps { max_states: if thorough { 1_500_000 } else { 200_000 }, max_secs: if thorough { 1200.0 } else { 40.0 } };
    let st = histmc::bfs(&spec, d_state, true, &rep, &caps);
    let st2 = histmc::bfs(&spec, d_tree, false, &rep, &Caps { max_states: 5_000_000, max_secs: 300.0 });
    let _ = std::fs::remove_dir_all(&scratch);
    histmc::stats_into(&mut rep, "", &st);
    histmc::stats_into(&mut rep, "stateless_guard_", &st2);
    rep.set("alphabet_size", json!(spec.ops.len()));
    rep.set("exhaustive", json!(!st.capped && !st2.capped));
    rep.set("samples", json!(st.samples));
    rep.set("rule", json!("BFS over all histories of DML / index DDL / transaction (/ reload) statements; in every reached state: constraint hash indexes equal the maps recomputed from scan(); every user index equals, as key → set of positions, the same index re-created from scratch on a clone; inconsistent states are reported and not expanded"));
    let (reach, vac) = crate::report::reach_json(&["delete_truncate_fast_path", "delete_pk_fast_path"]);
    rep.set("reach", reach);
    rep.set("vacuous_mechanisms", vac);
    rep.finish()
}
