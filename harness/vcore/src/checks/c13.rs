//! C13 — ROLLBACK restores exactly the state at BEGIN; COMMIT keeps the last state (DESIGN §5 C13).

use std::collections::BTreeSet;
use std::sync::Arc;

use serde_json::json;
use vibesql_storage::Database;

use crate::exec::{self, Out};
use crate::histmc::{self, Caps, Node, Spec};
use crate::obs;
use crate::report::Report;

pub const PRELUDE: &[&str] = &[
    "CREATE TABLE t (id INT PRIMARY KEY, v INT, w INT UNIQUE)",
    "CREATE INDEX iv ON t (v)",
    "CREATE VIEW vw AS SELECT id, v FROM t WHERE v > 10",
    "INSERT INTO t VALUES (1, 10, 100), (2, 20, 200)",
];

const PRE_OPS: &[&str] = &[
    "INSERT INTO t VALUES (3, 30, 300)",
    "UPDATE t SET v = 25 WHERE id = 2",
    "DELETE FROM t WHERE id = 1",
    "CREATE INDEX iw ON t (w)",
    "DROP INDEX iv",
];

const TX_OPS: &[&str] = &[
    "INSERT INTO t VALUES (4, 40, 400)",
    "INSERT INTO t VALUES (5, 10, 500)",
    "UPDATE t SET v = 99 WHERE id = 2",
    "UPDATE t SET id = id + 10",
    "DELETE FROM t WHERE id = 1",
    "DELETE FROM t",
    "TRUNCATE TABLE t",
    "CREATE INDEX ix ON t (w)",
    "DROP INDEX iv",
    "CREATE TABLE n (a INT)",
    "INSERT INTO n VALUES (1)",
    "DROP TABLE t",
    "ALTER TABLE t ADD COLUMN z INT",
    "CREATE VIEW v2 AS SELECT id FROM t",
    "DROP VIEW vw",
    "ALTER TABLE t DROP COLUMN v",
    "CREATE UNIQUE INDEX uv ON t (v)",
    "UPDATE t SET w = NULL WHERE id = 2",
    "SAVEPOINT s1",
    "ROLLBACK TO SAVEPOINT s1",
    // a statement the open transaction refuses (it must not disturb what ROLLBACK restores)
    "BEGIN",
];

const FUTURE: &[&str] = &[
    "INSERT INTO t VALUES (1, 1, 1)",
    "INSERT INTO t VALUES (9, 9, 100)",
    "INSERT INTO t VALUES (9, 9, 900)",
    "CREATE INDEX ix ON t (w)",
    "CREATE INDEX iv ON t (v)",
    "DROP INDEX iv",
    "DROP INDEX ix",
    "CREATE TABLE n (a INT)",
    "SELECT * FROM vw",
    "SELECT * FROM v2",
    "SELECT z FROM t",
    "UPDATE t SET v = 0 WHERE v = 20",
    "DELETE FROM t WHERE v = 10",
    "SELECT id FROM t WHERE v = 20",
    "SELECT id FROM t WHERE v > 5 ORDER BY v",
    "SELECT id FROM t WHERE w = 200",
];

fn future_menu() -> Vec<String> {
    FUTURE.iter().map(|s| s.to_string()).collect()
}

#[derive(Clone)]
pub enum Phase {
    Pre,
    InTx { pre_obs: Arc<String>, pre_future: Arc<Vec<String>>, begin_at: usize },
}

struct C13Spec {
    pre_depth: usize,
    k: usize,
}

fn kinds(hist: &[String]) -> String {
    let mut k = BTreeSet::new();
    for h in hist {
        let w: Vec<&str> = h.split_whitespace().take(2).collect();
        let kind = match w.first().copied() {
            Some("INSERT") | Some("UPDATE") | Some("DELETE") | Some("TRUNCATE") => w[0].to_string(),
            _ => w.join(" "),
        };
        k.insert(kind);
    }
    k.into_iter().collect::<Vec<_>>().join("+")
}

fn aspect(diff: &str) -> &'static str {
    if diff.contains("`TABLE") || diff.contains("`  row") || diff.contains("`  col") {
        "tables"
    } else if diff.contains("`CATALOG") {
        "catalog"
    } else if diff.contains("`INDEX") || diff.contains("` ->") || diff.contains("->") && !diff.contains("PROBE") {
        "index_registry"
    } else if diff.contains("`PROBE") {
        "query_results"
    } else {
        "other"
    }
}

fn case(hist: &[String]) -> serde_json::Value {
    let mut probes: Vec<String> = vec!["SELECT * FROM t".into(), "SELECT id FROM t WHERE v = 20".into(), "SELECT id FROM t WHERE v > 5 ORDER BY v".into()];
    probes.extend(FUTURE.iter().take(4).map(|s| s.to_string()));
    json!({"prelude": PRELUDE, "steps": hist, "probes": probes, "note": "compare the probes with the same history cut before BEGIN"})
}

impl Spec for C13Spec {
    type M = Phase;
    fn init(&self) -> Vec<Node<Phase>> {
        vec![Node { db: exec::fresh(PRELUDE), model: Phase::Pre, hist: vec![] }]
    }
    fn alphabet(&self, _db: &Database, m: &Phase, hist: &[String]) -> Vec<String> {
        match m {
            Phase::Pre => {
                let mut a: Vec<String> = vec!["BEGIN".into()];
                if hist.len() < self.pre_depth {
                    a.extend(PRE_OPS.iter().map(|s| s.to_string()));
                }
                a
            }
            Phase::InTx { begin_at, .. } => {
                let mut a: Vec<String> = vec!["ROLLBACK".into(), "COMMIT".into()];
                if hist.len() - begin_at < self.k {
                    a.extend(TX_OPS.iter().map(|s| s.to_string()));
                }
                a
            }
        }
    }
    fn step(&self, pre: &Database, m: &Phase, op: &str, post: &Database, out: &Out, hist: &[String], rep: &Report) -> Option<Phase> {
        if let Out::Panic(msg) = out {
            // a panic of BEGIN / COMMIT / ROLLBACK is a failure to restore or keep the state; a panic of
            // any other statement is property C24's business: counted, not explored further
            if matches!(op, "BEGIN" | "COMMIT" | "ROLLBACK") {
                rep.violation(&[("kind", "panic".into()), ("op", kinds(&[op.to_string()]))], format!("`{}` panicked: {}", op, msg), case(hist));
            }
            return None;
        }
        match m {
            Phase::Pre => {
                if op == "BEGIN" {
                    if !out.is_ok() {
                        rep.violation(&[("kind", "begin_rejected".into())], format!("BEGIN failed: {}", out.brief()), case(hist));
                        return None;
                    }
                    // observe the state just before BEGIN
                    Some(Phase::InTx {
                        pre_obs: Arc::new(obs::obs_state(pre)),
                        pre_future: Arc::new(obs::obs_future(pre, &future_menu())),
                        begin_at: hist.len(),
                    })
                } else {
                    Some(Phase::Pre)
                }
            }
            Phase::InTx { pre_obs, pre_future, begin_at } => {
                let tx = &hist[*begin_at..hist.len() - 1];
                if op == "ROLLBACK" {
                    if !out.is_ok() {
                        rep.violation(&[("kind", "rollback_rejected".into()), ("tx", kinds(tx))], format!("ROLLBACK failed: {}", out.brief()), case(hist));
                        return None;
                    }
                    let o = obs::obs_state(post);
                    if o != **pre_obs {
                        let d = obs::first_diff(pre_obs, &o);
                        rep.violation(
                            &[("kind", "rollback_state".into()), ("aspect", aspect(&d).to_string()), ("tx", kinds(tx))],
                            format!("after BEGIN; {}; ROLLBACK the observable state differs from the state before BEGIN: {}", tx.join("; "), d),
                            case(hist),
                        );
                        return None;
                    }
                    let f = obs::obs_future(post, &future_menu());
                    if f != **pre_future {
                        let d = pre_future.iter().zip(f.iter()).find(|(a, b)| a != b).map(|(a, b)| format!("expected `{}` got `{}`", a, b)).unwrap_or_default();
                        rep.violation(
                            &[("kind", "rollback_future".into()), ("tx", kinds(tx))],
                            format!("after BEGIN; {}; ROLLBACK a later statement behaves differently than before BEGIN: {}", tx.join("; "), d),
                            case(hist),
                        );
                    }
                    None
                } else if op == "COMMIT" {
                    if !out.is_ok() {
                        rep.violation(&[("kind", "commit_rejected".into()), ("tx", kinds(tx))], format!("COMMIT failed: {}", out.brief()), case(hist));
                        return None;
                    }
                    let before = obs::obs_state(pre);
                    let after = obs::obs_state(post);
                    if before != after {
                        rep.violation(
                            &[("kind", "commit_state".into()), ("tx", kinds(tx))],
                            format!("COMMIT changed the observable state: {}", obs::first_diff(&before, &after)),
                            case(hist),
                        );
                    }
                    let mut c = post.clone();
                    let r = exec::exec(&mut c, "ROLLBACK");
                    if r.is_ok() {
                        rep.violation(&[("kind", "rollback_after_commit_accepted".into())], "ROLLBACK after COMMIT succeeded".into(), case(hist));
                    } else if obs::obs_state(&c) != after {
                        rep.violation(&[("kind", "failed_rollback_after_commit_changed_state".into())], "a rejected ROLLBACK after COMMIT changed the state".into(), case(hist));
                    }
                    None
                } else {
                    Some(m.clone())
                }
            }
        }
    }
    fn model_key(&self, m: &Phase) -> String {
        match m {
            Phase::Pre => "pre".into(),
            // the pre-state observation identifies the obligation; begin_at only bounds the depth, and
            // histories of different tx length reaching the same value have the same obligation, but the
            // remaining depth differs: include it so a shorter path is not cut off by a longer one
            Phase::InTx { pre_obs, begin_at, .. } => format!("tx:{}:{:x}", begin_at, crate::util::hash64(pre_obs.as_bytes())),
        }
    }
}

pub fn run(tier: &str) -> i32 {
    let mut rep = Report::new("C13", tier, "model_checking");
    vibesql_types::verif::reset();
    let thorough = tier == "thorough";
    let spec = C13Spec { pre_depth: 2, k: if thorough { 4 } else { 2 } };
    let depth = spec.pre_depth + 1 + spec.k + 1;
    let caps = Caps { max_states: if thorough { 2_000_000 } else { 300_000 }, max_secs: if thorough { 1200.0 } else { 45.0 } };
    let st = histmc::bfs(&spec, depth, true, &rep, &caps);
    let guard = C13Spec { pre_depth: 1, k: if thorough { 3 } else { 2 } };
    let st2 = histmc::bfs(&guard, guard.pre_depth + 1 + guard.k + 1, false, &rep, &Caps { max_states: 5_000_000, max_secs: 300.0 });
    histmc::stats_into(&mut rep, "", &st);
    histmc::stats_into(&mut rep, "stateless_guard_", &st2);
    rep.set("exhaustive", json!(!st.capped && !st2.capped));
    rep.set("in_tx_history_bound", json!(spec.k));
    rep.set("samples", json!(st.samples));
    rep.set("rule", json!("BFS: pre-states reachable in ≤2 steps; BEGIN; every in-transaction history of ≤k statements over 15 DML/DDL statements; at every in-transaction state both ROLLBACK (observation + future-behaviour equality with the pre-BEGIN state) and COMMIT (observation unchanged, later ROLLBACK rejected) are checked"));
    let (reach, vac) = crate::report::reach_json(&["index_scan"]);
    rep.set("reach", reach);
    rep.set("vacuous_mechanisms", vac);
    rep.finish()
}
