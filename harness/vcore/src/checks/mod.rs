pub mod c10;

use crate::report::Report;

/// Run the check for a property; returns the process exit code.
pub fn run(id: &str, tier: &str) -> i32 {
    match id {
        "C10" => c10::run(tier),
        _ => {
            eprintln!("unknown property id {}", id);
            2
        }
    }
}

pub fn finish(rep: Report) -> i32 {
    rep.finish()
}
