pub mod c10;
pub mod c13;
pub mod c14;
pub mod c15;

use crate::report::Report;

/// Run the check for a property; returns the process exit code.
pub fn run(id: &str, tier: &str) -> i32 {
    match id {
        "C10" => c10::run(tier),
        "C13" => c13::run(tier),
        "C14" => c14::run(tier),
        "C15" => c15::run(tier),
        _ => {
            eprintln!("unknown property id {}", id);
            2
        }
    }
}

pub fn finish(rep: Report) -> i32 {
    rep.finish()
}
