//! C14 — ROLLBACK TO SAVEPOINT restores the state at the savepoint (DESIGN §5 C14).

use std::collections::BTreeSet;

use serde_json::json;
use vibesql_storage::Database;

use crate::exec::{self, Out};
use crate::histmc::{self, Caps, Node, Spec};
use crate::report::Report;
use crate::val;

pub const PRELUDE: &[&str] = &[
    "CREATE TABLE t (id INT PRIMARY KEY, v INT)",
    "CREATE INDEX iv ON t (v)",
    "CREATE TABLE u (k INT, w INT)",
    "INSERT INTO t VALUES (1, 10), (2, 20)",
    "INSERT INTO u VALUES (1, 100)",
    "BEGIN",
];

const DML: &[&str] = &[
    "INSERT INTO t VALUES (50, 500)",
    "INSERT INTO t VALUES (3, 30), (4, 40)",
    "INSERT INTO u VALUES (2, 200)",
    "UPDATE t SET v = v + 1 WHERE id = 1",
    "UPDATE t SET v = 7",
    "DELETE FROM t WHERE id = 2",
    "DELETE FROM t WHERE v >= 20",
    // the DELETE-all fast path, a key-changing update, re-insertion of a key, a statement that fails
    // on its second row, and DML on the second table
    "DELETE FROM t",
    "UPDATE t SET id = id + 10 WHERE id = 1",
    "INSERT INTO t VALUES (2, 21)",
    "INSERT INTO t VALUES (5, 50), (1, 99)",
    "UPDATE u SET w = w + 1",
    "DELETE FROM u WHERE k = 1",
];

const NAMES: &[&str] = &["s1", "s2", "s3"];

type Bags = Vec<(String, Vec<Vec<val::NV>>)>;

fn bags(db: &Database) -> Bags {
    crate::obs::table_keys(db).into_iter().map(|k| (k.clone(), val::bag(&crate::obs::rows_of(db, &k)))).collect()
}

fn fmt_bags(b: &Bags) -> String {
    b.iter().map(|(k, v)| format!("{}={}", k, val::fmt_bag(v))).collect::<Vec<_>>().join(" ")
}

#[derive(Clone)]
pub struct Entry {
    name: String,
    snap: Bags,
    /// index into history at which it was created
    at: usize,
}

#[derive(Clone, Default)]
pub struct Model {
    live: Vec<Entry>,
    /// savepoints later than a released one: the property does not say whether they survive
    ambiguous: BTreeSet<String>,
    /// the same savepoints with their snapshots: whether they are still alive is the engine's choice,
    /// but a `ROLLBACK TO` one of them that *succeeds* must restore its snapshot
    maybe: Vec<Entry>,
}

fn kinds_since(hist: &[String], from: usize) -> String {
    let mut k = BTreeSet::new();
    for h in &hist[from..] {
        if h.starts_with("INSERT") {
            k.insert("insert");
        } else if h.starts_with("UPDATE") {
            k.insert("update");
        } else if h.starts_with("DELETE") {
            k.insert("delete");
        }
    }
    if k.is_empty() {
        "none".into()
    } else {
        k.into_iter().collect::<Vec<_>>().join("+")
    }
}

struct C14Spec;

fn case(hist: &[String]) -> serde_json::Value {
    json!({"prelude": PRELUDE, "steps": hist, "probes": ["SELECT * FROM t", "SELECT * FROM u"]})
}

impl Spec for C14Spec {
    type M = Model;
    fn init(&self) -> Vec<Node<Model>> {
        vec![Node { db: exec::fresh(PRELUDE), model: Model::default(), hist: vec![] }]
    }
    fn alphabet(&self, _db: &Database, m: &Model, _h: &[String]) -> Vec<String> {
        let mut a: Vec<String> = DML.iter().map(|s| s.to_string()).collect();
        for n in NAMES {
            if m.ambiguous.contains(*n) {
                if m.maybe.iter().any(|e| e.name == *n) {
                    a.push(format!("ROLLBACK TO SAVEPOINT {}", n));
                }
                continue;
            }
            let live = m.live.iter().any(|e| e.name == *n);
            if !live {
                a.push(format!("SAVEPOINT {}", n)); // re-declaring a live name is excluded (shadowing unspecified)
            }
            a.push(format!("ROLLBACK TO SAVEPOINT {}", n));
            a.push(format!("RELEASE SAVEPOINT {}", n));
        }
        a
    }
    fn step(&self, pre: &Database, m: &Model, op: &str, post: &Database, out: &Out, hist: &[String], rep: &Report) -> Option<Model> {
        let mut m2 = m.clone();
        if let Out::Panic(msg) = out {
            // only a panic of a savepoint operation concerns this property (DML panics are C24's)
            if op.starts_with("SAVEPOINT") || op.starts_with("ROLLBACK") || op.starts_with("RELEASE") {
                rep.violation(&[("kind", "panic".into()), ("op", op.split_whitespace().next().unwrap_or("").to_string())], format!("`{}` panicked: {}", op, msg), case(hist));
            }
            return None;
        }
        let pre_b = bags(pre);
        let post_b = bags(post);
        if let Some(n) = op.strip_prefix("SAVEPOINT ") {
            if !out.is_ok() {
                rep.violation(&[("kind", "savepoint_rejected".into())], format!("`{}` failed inside a transaction: {}", op, out.brief()), case(hist));
                return None;
            }
            if pre_b != post_b {
                rep.violation(&[("kind", "savepoint_changed_data".into())], format!("`{}` changed table contents", op), case(hist));
            }
            m2.live.push(Entry { name: n.to_string(), snap: post_b, at: hist.len() });
        } else if let Some(n) = op.strip_prefix("ROLLBACK TO SAVEPOINT ").filter(|n| m.maybe.iter().any(|e| e.name == *n)) {
            // a savepoint created after one that was released since: the engine may have destroyed it
            // (then this fails and nothing changes) or kept it (then it must restore its snapshot)
            let e = m.maybe.iter().find(|e| e.name == n).unwrap();
            if out.is_ok() {
                if post_b != e.snap {
                    let since = kinds_since(hist, e.at);
                    rep.violation(
                        &[("kind", "rollback_to_content".into()), ("undone", since), ("after_release_of_earlier_savepoint", "true".into())],
                        format!("after `{}` (a savepoint the engine kept alive across the RELEASE of an earlier one) tables are {} but were {} when the savepoint was created", op, fmt_bags(&post_b), fmt_bags(&e.snap)),
                        case(hist),
                    );
                }
                return None; // which savepoints remain alive now is unspecified: the branch ends here
            } else if pre_b != post_b {
                rep.violation(&[("kind", "failed_rollback_to_changed_data".into())], format!("failed `{}` changed table contents", op), case(hist));
                return None;
            }
            m2.maybe.retain(|x| x.name != n);
        } else if let Some(n) = op.strip_prefix("ROLLBACK TO SAVEPOINT ") {
            match m.live.iter().position(|e| e.name == n) {
                Some(i) => {
                    let e = &m.live[i];
                    let since = kinds_since(hist, e.at);
                    let non_insert = (since.contains("update") || since.contains("delete")).to_string();
                    if !out.is_ok() {
                        rep.violation(
                            &[("kind", "rollback_to_live_rejected".into()), ("undone", since), ("undone_has_update_or_delete", non_insert)],
                            format!("`{}` on a live savepoint failed: {}", op, out.brief()),
                            case(hist),
                        );
                        return None;
                    }
                    if post_b != e.snap {
                        rep.violation(
                            &[("kind", "rollback_to_content".into()), ("undone", since), ("undone_has_update_or_delete", non_insert)],
                            format!("after `{}` tables are {} but were {} when the savepoint was created", op, fmt_bags(&post_b), fmt_bags(&e.snap)),
                            case(hist),
                        );
                        return None; // model and implementation have diverged
                    }
                    m2.live.truncate(i + 1); // s stays alive, later savepoints are destroyed
                    m2.maybe.retain(|x| x.at <= e.at);
                    // ambiguous ones were all later than some released savepoint; if they were created
                    // after s they are destroyed now, otherwise still ambiguous: keep them excluded.
                }
                None => {
                    if out.is_ok() {
                        let ever = hist[..hist.len() - 1].iter().any(|h| h == &format!("SAVEPOINT {}", n));
                        rep.violation(
                            &[("kind", "rollback_to_dead_accepted".into()), ("ever_created", ever.to_string())],
                            format!("`{}` succeeded although no such savepoint is alive", op),
                            case(hist),
                        );
                        return None;
                    } else if pre_b != post_b {
                        rep.violation(&[("kind", "failed_rollback_to_changed_data".into())], format!("failed `{}` changed table contents", op), case(hist));
                        return None;
                    }
                }
            }
        } else if let Some(n) = op.strip_prefix("RELEASE SAVEPOINT ") {
            if pre_b != post_b {
                rep.violation(&[("kind", "release_changed_data".into())], format!("`{}` changed table contents: {} -> {}", op, fmt_bags(&pre_b), fmt_bags(&post_b)), case(hist));
                return None;
            }
            match m.live.iter().position(|e| e.name == n) {
                Some(i) => {
                    if !out.is_ok() {
                        rep.violation(&[("kind", "release_live_rejected".into())], format!("`{}` on a live savepoint failed: {}", op, out.brief()), case(hist));
                        return None;
                    }
                    for e in &m.live[i + 1..] {
                        m2.ambiguous.insert(e.name.clone());
                        m2.maybe.push(e.clone());
                    }
                    m2.live.truncate(i);
                }
                None => {
                    if out.is_ok() {
                        rep.violation(&[("kind", "release_dead_accepted".into())], format!("`{}` succeeded although no such savepoint is alive", op), case(hist));
                        return None;
                    }
                }
            }
        }
        Some(m2)
    }
    fn model_key(&self, m: &Model) -> String {
        let mut s = String::new();
        for e in &m.live {
            s.push_str(&format!("{}@{};", e.name, crate::util::hash64(fmt_bags(&e.snap).as_bytes())));
            // `at` matters only for the signature, not for futures
        }
        s.push('|');
        for e in &m.maybe {
            s.push_str(&format!("?{}@{};", e.name, crate::util::hash64(fmt_bags(&e.snap).as_bytes())));
        }
        for a in &m.ambiguous {
            s.push_str(a);
            s.push(',');
        }
        s
    }
}

pub fn run(tier: &str) -> i32 {
    let mut rep = Report::new("C14", tier, "model_checking");
    vibesql_types::verif::reset();
    let thorough = tier == "thorough";
    let (d_state, d_tree) = if thorough { (7, 4) } else { (5, 3) };
    let caps = Caps { max_states: if thorough { 2_000_000 } else { 300_000 }, max_secs: if thorough { 900.0 } else { 40.0 } };
    let st = histmc::bfs(&C14Spec, d_state, true, &rep, &caps);
    let st2 = histmc::bfs(&C14Spec, d_tree, false, &rep, &Caps { max_states: 5_000_000, max_secs: 300.0 });
    histmc::stats_into(&mut rep, "", &st);
    histmc::stats_into(&mut rep, "stateless_guard_", &st2);
    rep.set("exhaustive", json!(!st.capped && !st2.capped));
    rep.set("samples", json!(st.samples));
    rep.set("rule", json!("BFS over all interleavings of 7 DML statements with SAVEPOINT/RELEASE/ROLLBACK TO over 3 names inside one transaction; reference model = stack of (name, table bags at creation); states merged on Database fingerprint ⊕ model key"));
    let (reach, vac) = crate::report::reach_json(&["undo_insert", "undo_update", "undo_delete"]);
    rep.set("reach", reach);
    rep.set("vacuous_mechanisms", vac);
    rep.assume("re-declaring a live savepoint name and the fate of savepoints later than a released one are outside the property and excluded from the alphabet");
    rep.finish()
}
