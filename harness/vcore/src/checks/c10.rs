//! C10 — declared integrity constraints hold after every statement (DESIGN §5 C10).

use std::collections::BTreeSet;

use serde_json::json;
use vibesql_storage::Database;
use vibesql_types::SqlValue;

use crate::exec::{self, Out};
use crate::histmc::{self, Caps, Node, Spec};
use crate::report::Report;
use crate::val;

pub const PRELUDE: &[&str] = &[
    "CREATE TABLE d (id INT PRIMARY KEY, v INT UNIQUE, w INT NOT NULL CHECK (w >= 0))",
    "CREATE TABLE d2 (a INT, b INT, PRIMARY KEY (a, b))",
    "CREATE TABLE e (id INT, v INT)",
    "CREATE UNIQUE INDEX ue ON e (v)",
    "CREATE TABLE s (id INT NOT NULL, v INT, w INT NOT NULL)",
    // two UNIQUE constraints on one table (per-constraint bookkeeping must not be mixed up)
    "CREATE TABLE d3 (id INT PRIMARY KEY, u1 INT UNIQUE, u2 INT UNIQUE)",
];

/// Declared constraints (what the DDL above states), independent of the catalog's bookkeeping.
#[derive(Clone)]
pub enum Decl {
    /// unique key over columns; `pk` => NULLs not allowed either
    Key { table: &'static str, cols: &'static [usize], pk: bool, name: &'static str },
    NotNull { table: &'static str, col: usize, name: &'static str },
    /// CHECK (col >= 0): never FALSE (NULL passes)
    NonNeg { table: &'static str, col: usize, name: &'static str },
}

pub const DECLS: &[Decl] = &[
    Decl::Key { table: "D", cols: &[0], pk: true, name: "PK d(id)" },
    Decl::Key { table: "D", cols: &[1], pk: false, name: "UNIQUE d(v)" },
    Decl::NotNull { table: "D", col: 2, name: "NOT NULL d(w)" },
    Decl::NonNeg { table: "D", col: 2, name: "CHECK d(w>=0)" },
    Decl::Key { table: "D2", cols: &[0, 1], pk: true, name: "PK d2(a,b)" },
    Decl::Key { table: "E", cols: &[1], pk: false, name: "UNIQUE INDEX e(v)" },
    Decl::Key { table: "D3", cols: &[0], pk: true, name: "PK d3(id)" },
    Decl::Key { table: "D3", cols: &[1], pk: false, name: "UNIQUE d3(u1)" },
    Decl::Key { table: "D3", cols: &[2], pk: false, name: "UNIQUE d3(u2)" },
    Decl::NotNull { table: "S", col: 0, name: "NOT NULL s(id)" },
    Decl::NotNull { table: "S", col: 2, name: "NOT NULL s(w)" },
];

/// Returns the names of violated declared constraints in `db`.
pub fn violated(db: &Database, decls: &[Decl]) -> Vec<String> {
    let mut bad = vec![];
    for d in decls {
        match d {
            Decl::Key { table, cols, pk, name } => {
                let rows = crate::obs::rows_of(db, table);
                let mut seen = BTreeSet::new();
                for r in &rows {
                    let key: Vec<val::NV> = cols.iter().map(|c| val::norm(&r[*c])).collect();
                    let has_null = key.iter().any(|k| *k == val::NV::Null);
                    if has_null {
                        if *pk {
                            bad.push(format!("{} (NULL in key)", name));
                            break;
                        }
                        continue;
                    }
                    if !seen.insert(key) {
                        bad.push(name.to_string());
                        break;
                    }
                }
            }
            Decl::NotNull { table, col, name } => {
                if crate::obs::rows_of(db, table).iter().any(|r| r[*col].is_null()) {
                    bad.push(name.to_string());
                }
            }
            Decl::NonNeg { table, col, name } => {
                if crate::obs::rows_of(db, table).iter().any(|r| match &r[*col] {
                    SqlValue::Integer(i) | SqlValue::Bigint(i) => *i < 0,
                    SqlValue::Smallint(i) => *i < 0,
                    SqlValue::Double(f) | SqlValue::Numeric(f) => *f < 0.0,
                    _ => false,
                }) {
                    bad.push(name.to_string());
                }
            }
        }
    }
    // constraints added later through ALTER TABLE are read from the catalog
    for key in crate::obs::table_keys(db) {
        let t = &db.tables[&key];
        let sch = &t.schema;
        let rows: Vec<&Vec<SqlValue>> = t.scan().iter().map(|r| &r.values).collect();
        let mut keys: Vec<(Vec<usize>, bool, String)> = vec![];
        if let Some(pk) = &sch.primary_key {
            let idx: Vec<usize> = pk.iter().filter_map(|c| sch.get_column_index(c)).collect();
            if idx.len() == pk.len() {
                keys.push((idx, true, format!("catalog PK {}({})", sch.name, pk.join(","))));
            }
        }
        for u in &sch.unique_constraints {
            let idx: Vec<usize> = u.iter().filter_map(|c| sch.get_column_index(c)).collect();
            if idx.len() == u.len() {
                keys.push((idx, false, format!("catalog UNIQUE {}({})", sch.name, u.join(","))));
            }
        }
        for (idx, pk, name) in keys {
            let mut seen = BTreeSet::new();
            for r in &rows {
                let k: Vec<val::NV> = idx.iter().map(|c| val::norm(&r[*c])).collect();
                if k.iter().any(|x| *x == val::NV::Null) {
                    if pk {
                        bad.push(format!("{} (NULL in key)", name));
                        break;
                    }
                    continue;
                }
                if !seen.insert(k) {
                    bad.push(name.clone());
                    break;
                }
            }
        }
    }
    bad.sort();
    bad.dedup();
    bad
}

pub fn alphabet(tier_thorough: bool) -> Vec<String> {
    let mut a: Vec<String> = vec![];
    // --- table d: the product of statement shapes over a small value domain (every statement is
    // one alphabet element; BFS forms all histories). id ∈ {1,2,3}, v ∈ {NULL,10,20}, w ∈ {0,1}.
    let ids = ["1", "2", "3"];
    let vs = ["NULL", "10", "20"];
    for (i, id) in ids.iter().enumerate() {
        for v in vs {
            a.push(format!("INSERT INTO d VALUES ({}, {}, {})", id, v, i % 2));
        }
    }
    a.push("INSERT INTO d VALUES (5, NULL, 2)".into());
    a.push("INSERT INTO d VALUES (2, 30, NULL)".into());
    a.push("INSERT INTO d VALUES (NULL, 30, 0)".into());
    // the 4-row ascending insert arms the append-mode tracker in one step
    a.push("INSERT INTO d VALUES (1, 10, 0), (2, 20, 0), (3, 30, 0), (4, 40, 0)".into());
    // in-batch duplicates (key and unique column), incl. a NULL in between
    a.push("INSERT INTO d VALUES (6, 60, 0), (6, 61, 0)".into());
    a.push("INSERT INTO d (id, v, w) VALUES (7, 70, 0), (8, 70, 0)".into());
    a.push("INSERT INTO d VALUES (7, NULL, 0), (8, NULL, 0)".into());
    // UPDATE of the unique column: every value (NULL -> value, value -> NULL, value -> value) x every row selector
    let wheres = ["", " WHERE id = 1", " WHERE id = 2", " WHERE id = 3"];
    for v in vs {
        for w in wheres {
            a.push(format!("UPDATE d SET v = {}{}", v, w));
        }
    }
    a.push("UPDATE d SET v = 5".into());
    a.push("UPDATE d SET v = v + 10".into());
    a.push("UPDATE d SET v = 30 - v".into());
    // UPDATE of the primary key
    for id in ["1", "2", "NULL"] {
        for w in ["", " WHERE id = 1", " WHERE id = 3"] {
            a.push(format!("UPDATE d SET id = {}{}", id, w));
        }
    }
    a.push("UPDATE d SET id = 7".into());
    a.push("UPDATE d SET id = id + 1".into());
    a.push("UPDATE d SET id = 3 - id".into());
    a.push("UPDATE d SET id = 2, v = 20 WHERE id = 1".into());
    a.push("UPDATE d SET id = 2, v = NULL WHERE id = 1".into());
    // NOT NULL / CHECK
    a.push("UPDATE d SET w = w - 1".into());
    a.push("UPDATE d SET w = NULL WHERE id = 1".into());
    a.push("UPDATE d SET w = NULL".into());
    for id in ids {
        a.push(format!("DELETE FROM d WHERE id = {}", id));
    }
    a.push("DELETE FROM d WHERE v = 10".into());
    a.push("DELETE FROM d".into());
    a.push("TRUNCATE TABLE d".into());
    // INSERT ... SELECT: bulk path and column-list (normal) path
    a.push("INSERT INTO d SELECT * FROM s".into());
    a.push("INSERT INTO d (id, v, w) SELECT id, v, w FROM s".into());
    a.push("INSERT INTO s VALUES (2, 99, 0)".into());
    a.push("INSERT INTO s VALUES (9, 10, 0)".into());
    a.push("INSERT INTO s VALUES (9, 98, 0)".into());
    a.push("INSERT INTO s VALUES (8, NULL, 0)".into());
    // --- composite key
    a.push("INSERT INTO d2 VALUES (1, 1)".into());
    a.push("INSERT INTO d2 VALUES (1, 2)".into());
    a.push("INSERT INTO d2 VALUES (2, 1)".into());
    a.push("INSERT INTO d2 VALUES (1, 2), (1, 1)".into());
    a.push("INSERT INTO d2 VALUES (1, NULL)".into());
    a.push("UPDATE d2 SET b = 1".into());
    a.push("UPDATE d2 SET a = 1".into());
    a.push("UPDATE d2 SET a = b, b = a".into());
    a.push("DELETE FROM d2 WHERE b = 1".into());
    // --- two UNIQUE columns: a NULL in one of them next to a duplicate in the other, within a batch and across statements
    a.push("INSERT INTO d3 VALUES (1, NULL, 5), (2, NULL, 5)".into());
    a.push("INSERT INTO d3 VALUES (1, 5, NULL), (2, 5, NULL)".into());
    a.push("INSERT INTO d3 VALUES (1, 1, 5)".into());
    a.push("INSERT INTO d3 VALUES (2, NULL, 5)".into());
    a.push("INSERT INTO d3 VALUES (3, 1, NULL)".into());
    a.push("UPDATE d3 SET u2 = 5".into());
    a.push("UPDATE d3 SET u1 = NULL".into());
    // --- unique index on e(v): same NULL / value transitions
    a.push("INSERT INTO e VALUES (1, 10)".into());
    a.push("INSERT INTO e VALUES (2, 10)".into());
    a.push("INSERT INTO e VALUES (2, NULL)".into());
    a.push("INSERT INTO e VALUES (3, 11), (4, 11)".into());
    a.push("UPDATE e SET v = 12".into());
    a.push("UPDATE e SET v = 10 WHERE id = 2".into());
    a.push("UPDATE e SET v = NULL WHERE id = 1".into());
    a.push("DELETE FROM e WHERE id = 1".into());
    if tier_thorough {
        for s in [
            "REPLACE INTO d VALUES (1, 20, 0)",
            "REPLACE INTO d VALUES (3, 10, 0)",
            "REPLACE INTO d VALUES (2, NULL, 0)",
            "INSERT INTO d VALUES (1, 50, 0) ON DUPLICATE KEY UPDATE v = 20",
            "INSERT INTO d VALUES (1, 50, 0) ON DUPLICATE KEY UPDATE v = NULL",
            "INSERT INTO d VALUES (2, 50, 0) ON DUPLICATE KEY UPDATE v = 10",
            "INSERT INTO d VALUES (1, 50, 0) ON DUPLICATE KEY UPDATE id = 2",
            "INSERT INTO d VALUES (4, 10, 0) ON DUPLICATE KEY UPDATE w = 1",
            "ALTER TABLE e ADD CONSTRAINT ue2 UNIQUE (id)",
            "ALTER TABLE e ADD CONSTRAINT pke PRIMARY KEY (id)",
            "INSERT INTO e VALUES (1, 13)",
            "INSERT INTO e VALUES (NULL, 14)",
            "DELETE FROM s",
            "CREATE UNIQUE INDEX ud ON d (w)",
            "DROP INDEX ud",
        ] {
            a.push(s.to_string());
        }
    }
    a.sort();
    a.dedup();
    // simplest first: shorter statements before longer ones (stable for equal length)
    a.sort_by_key(|s| s.len());
    a
}

/// The smaller alphabet the deep search uses (the full product alphabet is searched to a smaller depth).
pub fn core_alphabet(tier_thorough: bool) -> Vec<String> {
    let mut a: Vec<String> = [
        "INSERT INTO d VALUES (1, 10, 0)",
        "INSERT INTO d VALUES (2, 20, 1)",
        "INSERT INTO d VALUES (3, 10, 0)",
        "INSERT INTO d VALUES (5, NULL, 2)",
        "INSERT INTO d VALUES (2, 30, NULL)",
        "INSERT INTO d VALUES (1, 10, 0), (2, 20, 0), (3, 30, 0), (4, 40, 0)",
        "INSERT INTO d VALUES (6, 60, 0), (6, 61, 0)",
        "INSERT INTO d (id, v, w) VALUES (7, 70, 0), (8, 70, 0)",
        "INSERT INTO d SELECT * FROM s",
        "INSERT INTO d (id, v, w) SELECT id, v, w FROM s",
        "INSERT INTO s VALUES (2, 99, 0)",
        "INSERT INTO s VALUES (9, 10, 0)",
        "INSERT INTO s VALUES (9, 98, 0)",
        "UPDATE d SET id = 7",
        "UPDATE d SET id = id + 1",
        "UPDATE d SET v = 5",
        "UPDATE d SET id = 2 WHERE id = 1",
        "UPDATE d SET w = w - 1",
        "UPDATE d SET w = NULL WHERE id = 1",
        "UPDATE d SET v = 20 WHERE id = 1",
        "UPDATE d SET v = 20 WHERE id = 5",
        "DELETE FROM d WHERE id = 2",
        "DELETE FROM d",
        "TRUNCATE TABLE d",
        "INSERT INTO d2 VALUES (1, 1)",
        "INSERT INTO d2 VALUES (1, 2), (1, 1)",
        "INSERT INTO d2 VALUES (1, NULL)",
        "UPDATE d2 SET b = 1",
        "INSERT INTO d3 VALUES (1, NULL, 5), (2, NULL, 5)",
        "INSERT INTO d3 VALUES (2, NULL, 5)",
        "INSERT INTO e VALUES (1, 10)",
        "INSERT INTO e VALUES (2, 10)",
        "INSERT INTO e VALUES (2, NULL)",
        "INSERT INTO e VALUES (3, 11), (4, 11)",
        "UPDATE e SET v = 12",
        "UPDATE e SET v = 10 WHERE id = 2",
    ]
    .iter()
    .map(|s| s.to_string())
    .collect();
    if tier_thorough {
        for s in [
            "REPLACE INTO d VALUES (1, 20, 0)",
            "REPLACE INTO d VALUES (3, 10, 0)",
            "INSERT INTO d VALUES (1, 50, 0) ON DUPLICATE KEY UPDATE v = 20",
            "INSERT INTO d VALUES (1, 50, 0) ON DUPLICATE KEY UPDATE id = 2",
            "ALTER TABLE e ADD CONSTRAINT ue2 UNIQUE (id)",
            "ALTER TABLE e ADD CONSTRAINT pke PRIMARY KEY (id)",
            "INSERT INTO e VALUES (1, 13)",
            "DELETE FROM s",
            "UPDATE d SET id = 3 - id",
        ] {
            a.push(s.to_string());
        }
    }
    a
}

struct C10Spec {
    alphabet: Vec<String>,
}

impl Spec for C10Spec {
    type M = ();
    fn init(&self) -> Vec<Node<()>> {
        vec![Node { db: exec::fresh(PRELUDE), model: (), hist: vec![] }]
    }
    fn alphabet(&self, _db: &Database, _m: &(), _h: &[String]) -> Vec<String> {
        self.alphabet.clone()
    }
    fn step(&self, _pre: &Database, _m: &(), op: &str, post: &Database, out: &Out, hist: &[String], rep: &Report) -> Option<()> {
        let bad = violated(post, DECLS);
        if !bad.is_empty() {
            // attribute to the statement that took a consistent state to an inconsistent one
            // feature of the failing input: was the target table's append-mode shortcut armed
            // in the pre-state (a function of the history, not of the wrong output)
            let target = op.split_whitespace().find(|w| ["d", "d2", "d3", "e", "s"].contains(&w.to_lowercase().as_str())).unwrap_or("d");
            let armed = _pre.get_table(&target.to_uppercase()).map(|t| t.is_in_append_mode()).unwrap_or(false);
            let path = if !op.starts_with("INSERT") { "-" } else if armed { "append_mode_armed" } else { "plain" };
            rep.violation(
                &[("constraint", bad[0].clone()), ("stmt", op.to_string()), ("outcome", out.class().to_string()), ("path", path.to_string())],
                format!("after `{}` ({}) constraint(s) {:?} no longer hold", op, out.brief(), bad),
                json!({"prelude": PRELUDE, "steps": hist, "probes": ["SELECT * FROM d", "SELECT * FROM d2", "SELECT * FROM d3", "SELECT * FROM e", "SELECT * FROM s"]}),
            );
            return None; // do not explore from an already inconsistent state
        }
        // a panicking statement is not a constraint violation (that is property C24); the invariant
        // above was evaluated on the state it left behind, and the search continues from it
        Some(())
    }
}

pub fn run(tier: &str) -> i32 {
    let mut rep = Report::new("C10", tier, "model_checking");
    vibesql_types::verif::reset();
    let thorough = tier == "thorough";
    let spec = C10Spec { alphabet: alphabet(thorough) };
    let core = C10Spec { alphabet: core_alphabet(thorough) };
    // full product alphabet to a smaller depth, core alphabet deeper
    let (d_full, d_core, d_tree) = if thorough { (5, 6, 2) } else { (3, 4, 2) };
    let caps = Caps { max_states: if thorough { 3_000_000 } else { 200_000 }, max_secs: if thorough { 700.0 } else { 25.0 } };
    // the stateless guard runs first: the stateful search may stop on its memory guard, and RSS
    // is not returned to the OS afterwards
    let st2 = histmc::bfs(&spec, d_tree, false, &rep, &Caps { max_states: 5_000_000, max_secs: 300.0 });
    let stc = histmc::bfs(&core, d_core, true, &rep, &Caps { max_states: caps.max_states, max_secs: if thorough { 500.0 } else { 20.0 } });
    let st = histmc::bfs(&spec, d_full, true, &rep, &caps);
    histmc::stats_into(&mut rep, "full_", &st);
    histmc::stats_into(&mut rep, "core_", &stc);
    histmc::stats_into(&mut rep, "stateless_guard_", &st2);
    rep.set("states", json!(st.states + stc.states));
    rep.set("transitions", json!(st.transitions + stc.transitions + st2.transitions));
    rep.set("depth_completed", json!({"full_alphabet": st.depth_completed, "core_alphabet": stc.depth_completed, "stateless": st2.depth_completed}));
    rep.set("core_alphabet_size", json!(core.alphabet.len()));
    let st = histmc::Stats { capped: st.capped || stc.capped, ..st };
    rep.set("alphabet_size", json!(spec.alphabet.len()));
    rep.set("exhaustive", json!(!st.capped && !st2.capped));
    rep.set("samples", json!(st.samples));
    rep.set(
        "rule",
        json!("BFS over all statement histories of the alphabet on the real Database; states merged on the canonical Debug fingerprint of the whole value; invariant (declared PK/UNIQUE/NOT NULL/CHECK recomputed from table scans) evaluated in every reached state; inconsistent states are reported and not expanded"),
    );
    let (reach, vac) = crate::report::reach_json(&["append_mode_skip", "bulk_transfer", "update_pk_fast_path", "delete_truncate_fast_path"]);
    rep.set("reach", reach);
    rep.set("vacuous_mechanisms", vac);
    rep.assume("equal canonical Debug fingerprints imply equal futures (all Database fields are printed; masked fields listed in fp.rs)");
    rep.finish()
}
