//! Replay a recorded violation without the explorer (DESIGN R7).

use serde_json::Value;
use vibesql_storage::Database;

use crate::exec;

/// Generic replay: executes `case.steps` (SQL) on a fresh database and prints every outcome,
/// then `case.probes` (SQL) if present. Specialised kinds are dispatched on `case.kind`.
pub fn replay(path: &str) -> i32 {
    let text = match std::fs::read_to_string(path) {
        Ok(t) => t,
        Err(e) => {
            eprintln!("cannot read {}: {}", path, e);
            return 2;
        }
    };
    let v: Value = match serde_json::from_str(&text) {
        Ok(v) => v,
        Err(e) => {
            eprintln!("bad replay file: {}", e);
            return 2;
        }
    };
    println!("property: {}", v["property"]);
    println!("what: {}", v["what"].as_str().unwrap_or(""));
    let case = &v["case"];
    exec::silence_panics();
    let mut db = Database::new();
    if let Some(role_setup) = case.get("security").and_then(|x| x.as_bool()) {
        if role_setup {
            db.enable_security();
        }
    }
    for key in ["prelude", "steps", "probes"] {
        if let Some(steps) = case.get(key).and_then(|x| x.as_array()) {
            println!("-- {}", key);
            for s in steps {
                let Some(sql) = s.as_str() else { continue };
                if let Some(role) = sql.strip_prefix("#ROLE ") {
                    db.set_role(if role == "-" { None } else { Some(role.to_string()) });
                    println!("{}", sql);
                    continue;
                }
                let o = exec::exec(&mut db, sql);
                println!("{}\n   => {}", sql, o.brief());
            }
        }
    }
    if let Some(note) = case.get("note").and_then(|x| x.as_str()) {
        println!("note: {}", note);
    }
    0
}
