//! Observation functions over a real `Database` (DESIGN §4 E2).

use std::collections::{BTreeMap, BTreeSet};

use vibesql_storage::database::IndexData;
use vibesql_storage::Database;
use vibesql_types::SqlValue;

use crate::exec::{self, Out};
use crate::val;

/// Storage-level table names (keys of `db.tables`), sorted.
pub fn table_keys(db: &Database) -> Vec<String> {
    let mut k: Vec<String> = db.tables.keys().cloned().collect();
    k.sort();
    k
}

pub fn rows_of(db: &Database, table: &str) -> Vec<Vec<SqlValue>> {
    match db.get_table(table) {
        Some(t) => t.scan().iter().map(|r| r.values.clone()).collect(),
        None => vec![],
    }
}

pub fn sql_lit(v: &SqlValue) -> String {
    match v {
        SqlValue::Null => "NULL".into(),
        SqlValue::Integer(i) | SqlValue::Bigint(i) => i.to_string(),
        SqlValue::Smallint(i) => i.to_string(),
        SqlValue::Unsigned(u) => u.to_string(),
        SqlValue::Numeric(f) | SqlValue::Double(f) => {
            if f.fract() == 0.0 && f.abs() < 1e15 {
                format!("{:.1}", f)
            } else {
                format!("{}", f)
            }
        }
        SqlValue::Float(f) | SqlValue::Real(f) => format!("{}", f),
        SqlValue::Character(s) | SqlValue::Varchar(s) => crate::util::sql_str(s),
        SqlValue::Boolean(b) => if *b { "TRUE".into() } else { "FALSE".into() },
        SqlValue::Date(d) => format!("DATE '{}'", d),
        SqlValue::Time(t) => format!("TIME '{}'", t),
        SqlValue::Timestamp(t) => format!("TIMESTAMP '{}'", t),
        SqlValue::Interval(i) => format!("INTERVAL '{}'", i),
    }
}

/// key -> sorted set of row positions, for an in-memory user index
pub fn index_map(db: &Database, index_name: &str) -> Option<BTreeMap<String, BTreeSet<usize>>> {
    match db.get_index_data(index_name)? {
        IndexData::InMemory { data } => {
            let mut m = BTreeMap::new();
            for (k, v) in data.iter() {
                let ks = k.iter().map(val::exact).collect::<Vec<_>>().join("|");
                let e: &mut BTreeSet<usize> = m.entry(ks).or_default();
                for p in v {
                    e.insert(*p);
                }
            }
            // empty position lists are not observable
            m.retain(|_, v: &mut BTreeSet<usize>| !v.is_empty());
            Some(m)
        }
        IndexData::DiskBacked { .. } => None,
    }
}

fn out_bag(o: &Out) -> String {
    match o {
        Out::Rows(r) => val::fmt_bag(&val::bag(r)),
        Out::Count(n) => format!("count({})", n),
        Out::Done => "ok".into(),
        Out::Err(c, _) => format!("err[{:?}]", c),
        Out::Panic(_) => "PANIC".into(),
    }
}

/// Bare (unqualified, as-declared) table name of a storage key like "public.T".
pub fn bare(key: &str) -> String {
    match key.split_once('.') {
        Some((_, t)) => t.to_string(),
        None => key.to_string(),
    }
}

fn ident(name: &str) -> String {
    // names are stored upper-cased for unquoted identifiers; quote anything else
    if name.chars().all(|c| c.is_ascii_uppercase() || c.is_ascii_digit() || c == '_') {
        name.to_string()
    } else {
        format!("\"{}\"", name)
    }
}

/// A fixed battery of probe queries derived from the state: point, range, IN, ORDER BY
/// on every column of every table, plus an aggregate. Returns (sql, result-as-text).
pub fn probe_battery(db: &Database) -> Vec<(String, String)> {
    let mut out = vec![];
    for key in table_keys(db) {
        let Some(t) = db.tables.get(&key) else { continue };
        let tn = ident(&bare(&key));
        let cols: Vec<String> = t.schema.columns.iter().map(|c| c.name.clone()).collect();
        let rows: Vec<Vec<SqlValue>> = t.scan().iter().map(|r| r.values.clone()).collect();
        let mut qs: Vec<String> = vec![format!("SELECT * FROM {}", tn), format!("SELECT COUNT(*) FROM {}", tn)];
        for (ci, c) in cols.iter().enumerate() {
            let cn = ident(c);
            let mut vals: Vec<SqlValue> = vec![];
            for r in &rows {
                if let Some(v) = r.get(ci) {
                    if !v.is_null() && !vals.iter().any(|x| val::exact(x) == val::exact(v)) {
                        vals.push(v.clone());
                    }
                }
            }
            vals.truncate(4);
            for v in &vals {
                let l = sql_lit(v);
                qs.push(format!("SELECT * FROM {} WHERE {} = {}", tn, cn, l));
                qs.push(format!("SELECT * FROM {} WHERE {} >= {}", tn, cn, l));
                qs.push(format!("SELECT * FROM {} WHERE {} < {}", tn, cn, l));
            }
            if vals.len() >= 2 {
                qs.push(format!("SELECT * FROM {} WHERE {} IN ({}, {})", tn, cn, sql_lit(&vals[0]), sql_lit(&vals[1])));
                qs.push(format!(
                    "SELECT * FROM {} WHERE {} BETWEEN {} AND {}",
                    tn,
                    cn,
                    sql_lit(&vals[0]),
                    sql_lit(&vals[1])
                ));
            }
            qs.push(format!("SELECT * FROM {} WHERE {} IS NULL", tn, cn));
            qs.push(format!("SELECT * FROM {} ORDER BY {}", tn, cn));
        }
        for q in qs {
            let o = exec::select(db, &q);
            out.push((q, out_bag(&o)));
        }
    }
    out
}

/// Full observable state as text: tables (schema + row bag), catalog (canonical Debug),
/// user index definitions and contents (key -> position set), probe battery.
pub fn obs_state(db: &Database) -> String {
    obs_state_opts(db, true, true)
}

pub fn obs_state_opts(db: &Database, with_index_positions: bool, with_battery: bool) -> String {
    let mut s = String::new();
    for key in table_keys(db) {
        let t = &db.tables[&key];
        s.push_str(&format!("TABLE {}\n", key));
        for c in &t.schema.columns {
            s.push_str(&format!("  col {} {:?} nullable={}\n", c.name, c.data_type, c.nullable));
        }
        let rows: Vec<Vec<SqlValue>> = t.scan().iter().map(|r| r.values.clone()).collect();
        for r in val::exact_bag(&rows) {
            s.push_str(&format!("  row {}\n", r.join(",")));
        }
    }
    s.push_str("CATALOG ");
    s.push_str(&crate::fp::canon_debug(&format!("{:?}", db.catalog)));
    s.push('\n');
    let mut idx = db.list_indexes();
    idx.sort();
    for i in idx {
        s.push_str(&format!("INDEX {} meta={}\n", i, crate::fp::canon_debug(&format!("{:?}", db.get_index(&i)))));
        if with_index_positions {
            match index_map(db, &i) {
                Some(m) => {
                    for (k, v) in m {
                        s.push_str(&format!("  {} -> {:?}\n", k, v));
                    }
                }
                None => s.push_str("  <disk-backed or missing data>\n"),
            }
        }
    }
    if with_battery {
        for (q, r) in probe_battery(db) {
            s.push_str(&format!("PROBE {} => {}\n", q, r));
        }
    }
    s
}

/// Outcome of each statement of `menu` executed on a private clone.
pub fn obs_future(db: &Database, menu: &[String]) -> Vec<String> {
    menu.iter()
        .map(|sql| {
            let mut c = db.clone();
            let o = exec::exec(&mut c, sql);
            format!("{} => {}", sql, out_bag(&o))
        })
        .collect()
}

/// First differing line between two observation texts.
pub fn first_diff(a: &str, b: &str) -> String {
    let la: Vec<&str> = a.lines().collect();
    let lb: Vec<&str> = b.lines().collect();
    for i in 0..la.len().max(lb.len()) {
        let x = la.get(i).copied().unwrap_or("<missing>");
        let y = lb.get(i).copied().unwrap_or("<missing>");
        if x != y {
            return format!("expected `{}` got `{}`", crate::util::trunc(x, 300), crate::util::trunc(y, 300));
        }
    }
    "<no difference>".into()
}
