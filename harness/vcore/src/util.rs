//! Small helpers: hashing, truncation, parallel map.

use std::hash::Hasher;

pub fn trunc(s: &str, n: usize) -> String {
    if s.chars().count() <= n {
        s.to_string()
    } else {
        let t: String = s.chars().take(n).collect();
        format!("{}…", t)
    }
}

#[allow(deprecated)]
pub fn hash64(b: &[u8]) -> u64 {
    let mut h = std::hash::SipHasher::new_with_keys(0x7665_7269_6600_0001, 0x1234_5678_9abc_def0);
    h.write(b);
    h.finish()
}

#[allow(deprecated)]
pub fn hash128(b: &[u8]) -> u128 {
    let mut h1 = std::hash::SipHasher::new_with_keys(1, 2);
    h1.write(b);
    let mut h2 = std::hash::SipHasher::new_with_keys(0xdead_beef, 0xfeed_face);
    h2.write(b);
    ((h1.finish() as u128) << 64) | (h2.finish() as u128)
}

pub fn n_threads() -> usize {
    std::env::var("VERIF_THREADS")
        .ok()
        .and_then(|s| s.parse().ok())
        .unwrap_or_else(|| std::thread::available_parallelism().map(|n| n.get()).unwrap_or(4))
        .max(1)
}

/// Map `f` over `items` on all cores (plain OS threads; rayon's global pool is left to vibesql).
/// Results are returned in input order. `f` must be deterministic per item.
pub fn par_map<T: Sync, R: Send, F: Fn(usize, &T) -> R + Sync>(items: &[T], f: F) -> Vec<R> {
    let n = n_threads().min(items.len().max(1));
    if n <= 1 || items.len() < 2 {
        return items.iter().enumerate().map(|(i, x)| f(i, x)).collect();
    }
    let next = std::sync::atomic::AtomicUsize::new(0);
    let chunk = (items.len() / (n * 8)).max(1);
    let mut parts: Vec<Vec<(usize, R)>> = std::thread::scope(|s| {
        let hs: Vec<_> = (0..n)
            .map(|_| {
                s.spawn(|| {
                    let mut out = vec![];
                    loop {
                        let start = next.fetch_add(chunk, std::sync::atomic::Ordering::Relaxed);
                        if start >= items.len() {
                            break;
                        }
                        let end = (start + chunk).min(items.len());
                        for i in start..end {
                            out.push((i, f(i, &items[i])));
                        }
                    }
                    out
                })
            })
            .collect();
        hs.into_iter().map(|h| h.join().expect("harness worker thread panicked")).collect()
    });
    let mut all: Vec<(usize, R)> = parts.drain(..).flatten().collect();
    all.sort_by_key(|(i, _)| *i);
    all.into_iter().map(|(_, r)| r).collect()
}

/// Cartesian product helper: all sequences of length exactly `len` over 0..n.
pub fn sequences(n: usize, len: usize) -> Vec<Vec<usize>> {
    let mut out = vec![vec![]];
    for _ in 0..len {
        let mut nxt = Vec::with_capacity(out.len() * n);
        for s in &out {
            for i in 0..n {
                let mut t = s.clone();
                t.push(i);
                nxt.push(t);
            }
        }
        out = nxt;
    }
    out
}

/// All multisets (as sorted index vectors) of size exactly k over 0..n.
pub fn multisets(n: usize, k: usize) -> Vec<Vec<usize>> {
    fn rec(n: usize, k: usize, start: usize, cur: &mut Vec<usize>, out: &mut Vec<Vec<usize>>) {
        if cur.len() == k {
            out.push(cur.clone());
            return;
        }
        for i in start..n {
            cur.push(i);
            rec(n, k, i, cur, out);
            cur.pop();
        }
    }
    let mut out = vec![];
    rec(n, k, 0, &mut vec![], &mut out);
    out
}

pub fn sql_str(s: &str) -> String {
    format!("'{}'", s.replace('\'', "''"))
}
