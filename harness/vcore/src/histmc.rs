//! E2 — explicit-state search over statement histories on the real `Database`.
//!
//! Level-synchronous BFS (shortest witness first). A state is a real `Database` value plus a
//! reference-model value; a transition executes one op through the real parser and executor.
//! States are deduplicated on (canonical Debug fingerprint of the whole Database) ⊕ model key.

use std::collections::HashSet;
use std::time::Instant;

use vibesql_storage::Database;

use crate::exec::{self, Out};
use crate::report::Report;

pub struct Node<M> {
    pub db: Database,
    pub model: M,
    pub hist: Vec<String>,
}

pub trait Spec: Sync {
    type M: Clone + Send + Sync;
    /// initial states: (database after the prelude, model, prelude statements for replay)
    fn init(&self) -> Vec<Node<Self::M>>;
    /// finite menu of ops enabled in this state
    fn alphabet(&self, db: &Database, m: &Self::M, hist: &[String]) -> Vec<String>;
    /// apply an op to the real database (default: parse + execute the SQL text)
    fn apply(&self, db: &mut Database, op: &str) -> Out {
        exec::exec(db, op)
    }
    /// update the model and check invariants / agreement; report violations into `rep`.
    /// `hist` already includes `op` as its last element. Return None to prune (state not explored further).
    fn step(
        &self,
        pre: &Database,
        m: &Self::M,
        op: &str,
        post: &Database,
        out: &Out,
        hist: &[String],
        rep: &Report,
    ) -> Option<Self::M>;
    fn model_key(&self, _m: &Self::M) -> String {
        String::new()
    }
}

#[derive(Debug, Default, Clone)]
pub struct Stats {
    pub states: u64,
    pub transitions: u64,
    pub depth_completed: usize,
    pub capped: bool,
    pub ok_transitions: u64,
    pub err_transitions: u64,
    pub panic_transitions: u64,
    pub per_depth_states: Vec<u64>,
    pub samples: Vec<Vec<String>>,
}

pub struct Caps {
    pub max_states: u64,
    pub max_secs: f64,
}

impl Default for Caps {
    fn default() -> Self {
        Caps { max_states: 3_000_000, max_secs: 3000.0 }
    }
}

/// Resident set size of this process in bytes (Linux).
pub fn rss_bytes() -> u64 {
    std::fs::read_to_string("/proc/self/statm")
        .ok()
        .and_then(|s| s.split_whitespace().nth(1).and_then(|x| x.parse::<u64>().ok()))
        .map(|pages| pages * 4096)
        .unwrap_or(0)
}

/// RSS cap for explorers (bytes); the frontier of the next level is estimated before expanding.
pub fn rss_cap() -> u64 {
    std::env::var("VERIF_RSS_CAP_GB").ok().and_then(|s| s.parse::<u64>().ok()).unwrap_or(20) * (1 << 30)
}

/// Explore all histories up to `max_depth`. With `dedup` states with equal fingerprints are merged
/// (sound: equal values have equal futures); without it the plain tree is searched (stateless guard).
pub fn bfs<S: Spec>(spec: &S, max_depth: usize, dedup: bool, rep: &Report, caps: &Caps) -> Stats {
    // give freed memory of an earlier search back to the OS, so that the RSS-based memory guard
    // below measures this search and not the previous one
    trim_heap();
    let t0 = Instant::now();
    let mut stats = Stats::default();
    let mut seen: HashSet<u128> = HashSet::new();
    let mut frontier: Vec<Node<S::M>> = vec![];
    for n in spec.init() {
        let k = key_of(spec, &n.db, &n.model);
        if !dedup || seen.insert(k) {
            frontier.push(n);
        }
    }
    stats.states = frontier.len() as u64;
    stats.per_depth_states.push(stats.states);
    for depth in 1..=max_depth {
        if frontier.is_empty() {
            stats.depth_completed = max_depth;
            break;
        }
        if t0.elapsed().as_secs_f64() > caps.max_secs || stats.states > caps.max_states {
            stats.capped = true;
            break;
        }
        // memory guard: the next level is at most |frontier| × |alphabet| nodes; stop (and say so)
        // rather than be killed. Growth factor is estimated from the last two levels.
        {
            let rss = rss_bytes();
            let n = stats.per_depth_states.len();
            let growth = if n >= 2 && stats.per_depth_states[n - 2] > 0 {
                (stats.per_depth_states[n - 1] as f64 / stats.per_depth_states[n - 2] as f64).max(1.0)
            } else {
                8.0
            };
            if rss > (1 << 30) && (rss as f64) * growth > rss_cap() as f64 {
                stats.capped = true;
                break;
            }
        }
        // expand every frontier node in parallel
        let expanded: Vec<Vec<(Node<S::M>, u128, u8)>> = crate::util::par_map(&frontier, |_, node| {
            let mut outv = vec![];
            for op in spec.alphabet(&node.db, &node.model, &node.hist) {
                let mut db2 = node.db.clone();
                let out = spec.apply(&mut db2, &op);
                let mut hist = node.hist.clone();
                hist.push(op.clone());
                let cls = match &out {
                    Out::Panic(_) => 2u8,
                    Out::Err(..) => 1u8,
                    _ => 0u8,
                };
                let m2 = spec.step(&node.db, &node.model, &op, &db2, &out, &hist, rep);
                if let Some(m2) = m2 {
                    let k = if dedup { key_of(spec, &db2, &m2) } else { 0 };
                    outv.push((Node { db: db2, model: m2, hist }, k, cls));
                } else {
                    // pruned: still counts as a transition
                    outv.push((Node { db: Database::new(), model: node.model.clone(), hist: vec![] }, u128::MAX, cls | 0x80));
                }
            }
            outv
        });
        let mut next: Vec<Node<S::M>> = vec![];
        for v in expanded {
            for (n, k, cls) in v {
                stats.transitions += 1;
                match cls & 0x7f {
                    0 => stats.ok_transitions += 1,
                    1 => stats.err_transitions += 1,
                    _ => stats.panic_transitions += 1,
                }
                if cls & 0x80 != 0 {
                    continue;
                }
                if !dedup || seen.insert(k) {
                    if stats.samples.len() < 3 && n.hist.len() == depth {
                        stats.samples.push(n.hist.clone());
                    }
                    next.push(n);
                }
            }
        }
        stats.states += next.len() as u64;
        stats.per_depth_states.push(next.len() as u64);
        stats.depth_completed = depth;
        frontier = next;
    }
    if let Some(last) = frontier.last() {
        if stats.samples.len() < 4 {
            stats.samples.push(last.hist.clone());
        }
    }
    drop(frontier);
    drop(seen);
    trim_heap();
    stats
}

#[cfg(all(target_os = "linux", target_env = "gnu"))]
fn trim_heap() {
    extern "C" {
        fn malloc_trim(pad: usize) -> i32;
    }
    unsafe {
        malloc_trim(0);
    }
}
#[cfg(not(all(target_os = "linux", target_env = "gnu")))]
fn trim_heap() {}

fn key_of<S: Spec>(spec: &S, db: &Database, m: &S::M) -> u128 {
    let mut s = crate::fp::canon(db);
    s.push_str("\u{1}");
    s.push_str(&spec.model_key(m));
    crate::util::hash128(s.as_bytes())
}

pub fn stats_into(rep: &mut Report, prefix: &str, st: &Stats) {
    use serde_json::json;
    rep.set(&format!("{}states", prefix), json!(st.states));
    rep.set(&format!("{}transitions", prefix), json!(st.transitions));
    rep.set(&format!("{}depth_completed", prefix), json!(st.depth_completed));
    rep.set(&format!("{}capped", prefix), json!(st.capped));
    rep.set(&format!("{}states_per_depth", prefix), json!(st.per_depth_states));
    rep.set(
        &format!("{}transition_outcomes", prefix),
        json!({"ok": st.ok_transitions, "err": st.err_transitions, "panic": st.panic_transitions}),
    );
}
