//! E2 — explicit-state search over statement histories on the real `Database`.
//!
//! Level-synchronous BFS (shortest witness first). A state is a real `Database` value plus a
//! reference-model value; a transition executes one op through the real parser and executor.
//! States are deduplicated on (canonical Debug fingerprint of the whole Database) ⊕ model key.

use std::collections::HashSet;
use std::time::Instant;

use vibesql_storage::Database;

use crate::exec::{self, Out};
use crate::report::Report;

pub struct Node<M> {
    pub db: Database,
    pub model: M,
    pub hist: Vec<String>,
}

pub trait Spec: Sync {
    type M: Clone + Send + Sync;
    /// initial states: (database after the prelude, model, prelude statements for replay)
    fn init(&self) -> Vec<Node<Self::M>>;
    /// finite menu of ops enabled in this state
    fn alphabet(&self, db: &Database, m: &Self::M, hist: &[String]) -> Vec<String>;
    /// apply an op to the real database (default: parse + execute the SQL text)
    fn apply(&self, db: &mut Database, op: &str) -> Out {
        exec::exec(db, op)
    }
    /// update the model and check invariants / agreement; report violations into `rep`.
    /// `hist` already includes `op` as its last element. Return None to prune (state not explored further).
    fn step(
        &self,
        pre: &Database,
        m: &Self::M,
        op: &str,
        post: &Database,
        out: &Out,
        hist: &[String],
        rep: &Report,
    ) -> Option<Self::M>;
    fn model_key(&self, _m: &Self::M) -> String {
        String::new()
    }
}

#[derive(Debug, Default, Clone)]
pub struct Stats {
    pub states: u64,
    pub transitions: u64,
    pub depth_completed: usize,
    pub capped: bool,
    pub ok_transitions: u64,
    pub err_transitions: u64,
    pub panic_transitions: u64,
    pub per_depth_states: Vec<u64>,
    pub samples: Vec<Vec<String>>,
    /// depth from which frontier states were kept as histories and rebuilt by replay (memory)
    pub lazy_from_depth: Option<usize>,
}

pub struct Caps {
    pub max_states: u64,
    pub max_secs: f64,
}

impl Default for Caps {
    fn default() -> Self {
        Caps { max_states: 3_000_000, max_secs: 3000.0 }
    }
}

/// Resident set size of this process in bytes (Linux).
pub fn rss_bytes() -> u64 {
    std::fs::read_to_string("/proc/self/statm")
        .ok()
        .and_then(|s| s.split_whitespace().nth(1).and_then(|x| x.parse::<u64>().ok()))
        .map(|pages| pages * 4096)
        .unwrap_or(0)
}

/// RSS cap for explorers (bytes); the frontier of the next level is estimated before expanding.
pub fn rss_cap() -> u64 {
    std::env::var("VERIF_RSS_CAP_GB").ok().and_then(|s| s.parse::<u64>().ok()).unwrap_or(20) * (1 << 30)
}

/// Frontier entry. `db == None` is the *lazy* form: the state is rebuilt by replaying `hist` from its
/// initial node when it is expanded (a `Database` clone per frontier state is what exhausts memory at
/// depth 5-6; a history is a few hundred bytes).
struct FNode<M> {
    db: Option<Database>,
    model: M,
    hist: Vec<String>,
    init: usize,
}

/// Explore all histories up to `max_depth`. With `dedup` states with equal fingerprints are merged
/// (sound: equal values have equal futures); without it the plain tree is searched (stateless guard).
///
/// Memory: while it fits, frontier states are kept as live `Database` values. When the RSS guard
/// would trip, a `dedup` search switches to the lazy frontier (histories only, states rebuilt by
/// replay through `Spec::apply` from a clone of their initial node — the engine is deterministic, and
/// the fingerprint of a rebuilt state is asserted to equal the one it was stored under); the search
/// is reported `capped` only if even that does not fit or a time/state cap is hit.
pub fn bfs<S: Spec>(spec: &S, max_depth: usize, dedup: bool, rep: &Report, caps: &Caps) -> Stats {
    // give freed memory of an earlier search back to the OS, so that the RSS-based memory guard
    // below measures this search and not the previous one
    trim_heap();
    let t0 = Instant::now();
    let mut stats = Stats::default();
    let mut seen: HashSet<u128> = HashSet::new();
    let mut frontier: Vec<FNode<S::M>> = vec![];
    let mut inits: Vec<(Database, usize)> = vec![];
    for n in spec.init() {
        let k = key_of(spec, &n.db, &n.model);
        if !dedup || seen.insert(k) {
            inits.push((n.db.clone(), n.hist.len()));
            frontier.push(FNode { db: Some(n.db), model: n.model, hist: n.hist, init: inits.len() - 1 });
        }
    }
    let lazy_allowed = dedup && std::env::var("VERIF_NO_LAZY_FRONTIER").is_err();
    let mut lazy = false;
    let replay_mismatch = std::sync::atomic::AtomicU64::new(0);
    stats.states = frontier.len() as u64;
    stats.per_depth_states.push(stats.states);
    for depth in 1..=max_depth {
        if frontier.is_empty() {
            stats.depth_completed = max_depth;
            break;
        }
        if t0.elapsed().as_secs_f64() > caps.max_secs || stats.states > caps.max_states {
            stats.capped = true;
            break;
        }
        // memory guard: the next level is at most |frontier| × |alphabet| nodes; switch to the lazy
        // frontier, or stop (and say so), rather than be killed. Growth factor is estimated from the
        // last two levels.
        {
            let n = stats.per_depth_states.len();
            let growth = if n >= 2 && stats.per_depth_states[n - 2] > 0 {
                (stats.per_depth_states[n - 1] as f64 / stats.per_depth_states[n - 2] as f64).max(1.0)
            } else {
                8.0
            };
            let over = |g: f64| {
                let rss = rss_bytes();
                rss > (1 << 30) && (rss as f64) * g > rss_cap() as f64
            };
            if !lazy && over(growth) {
                if lazy_allowed {
                    lazy = true;
                    stats.lazy_from_depth = Some(depth);
                    for n in frontier.iter_mut() {
                        n.db = None;
                    }
                    trim_heap();
                } else {
                    stats.capped = true;
                    break;
                }
            }
            // lazy frontier: only keys, models and histories grow (×growth per level)
            if lazy && over(1.5) {
                stats.capped = true;
                break;
            }
        }
        let t_left = (caps.max_secs - t0.elapsed().as_secs_f64()).max(1.0);
        let t_level = Instant::now();
        let timed_out = std::sync::atomic::AtomicBool::new(false);
        // in-worker dedup (sharded) so that a level never materialises |frontier| × |alphabet| states
        let shards: Vec<std::sync::Mutex<HashSet<u128>>> = (0..64).map(|_| std::sync::Mutex::new(HashSet::new())).collect();
        let seen_ref = &seen;
        // expand every frontier node in parallel
        let expanded: Vec<(Vec<FNode<S::M>>, [u64; 4])> = crate::util::par_map(&frontier, |_, node| {
            let mut outv = vec![];
            let mut cnt = [0u64; 4]; // transitions, ok, err, panic
            if timed_out.load(std::sync::atomic::Ordering::Relaxed) {
                return (outv, cnt);
            }
            if t_level.elapsed().as_secs_f64() > t_left {
                timed_out.store(true, std::sync::atomic::Ordering::Relaxed);
                return (outv, cnt);
            }
            let rebuilt;
            let base: &Database = match &node.db {
                Some(d) => d,
                None => {
                    let (idb, ilen) = &inits[node.init];
                    let mut d = idb.clone();
                    for op in &node.hist[*ilen..] {
                        let _ = spec.apply(&mut d, op);
                    }
                    rebuilt = d;
                    &rebuilt
                }
            };
            if node.db.is_none() && dedup {
                // determinism of replay is what makes the lazy frontier sound: the rebuilt state must
                // be a state already recorded
                let k = key_of(spec, base, &node.model);
                if !seen_ref.contains(&k) {
                    replay_mismatch.fetch_add(1, std::sync::atomic::Ordering::Relaxed);
                }
            }
            for op in spec.alphabet(base, &node.model, &node.hist) {
                let mut db2 = base.clone();
                let out = spec.apply(&mut db2, &op);
                let mut hist = node.hist.clone();
                hist.push(op.clone());
                cnt[0] += 1;
                match &out {
                    Out::Panic(_) => cnt[3] += 1,
                    Out::Err(..) => cnt[2] += 1,
                    _ => cnt[1] += 1,
                }
                let m2 = spec.step(base, &node.model, &op, &db2, &out, &hist, rep);
                if let Some(m2) = m2 {
                    if dedup {
                        let k = key_of(spec, &db2, &m2);
                        if seen_ref.contains(&k) {
                            continue;
                        }
                        if !shards[(k as usize) & 63].lock().unwrap().insert(k) {
                            continue;
                        }
                    }
                    outv.push(FNode { db: if lazy { None } else { Some(db2) }, model: m2, hist, init: node.init });
                }
            }
            (outv, cnt)
        });
        let mut next: Vec<FNode<S::M>> = vec![];
        for (v, cnt) in expanded {
            stats.transitions += cnt[0];
            stats.ok_transitions += cnt[1];
            stats.err_transitions += cnt[2];
            stats.panic_transitions += cnt[3];
            for n in v {
                if stats.samples.len() < 3 && n.hist.len() == inits[n.init].1 + depth {
                    stats.samples.push(n.hist.clone());
                }
                next.push(n);
            }
        }
        for sh in shards {
            seen.extend(sh.into_inner().unwrap());
        }
        if timed_out.load(std::sync::atomic::Ordering::Relaxed) {
            // the level was not completed: everything below it was
            stats.capped = true;
            stats.states += next.len() as u64;
            frontier = next;
            break;
        }
        stats.states += next.len() as u64;
        stats.per_depth_states.push(next.len() as u64);
        stats.depth_completed = depth;
        frontier = next;
    }
    let mm = replay_mismatch.load(std::sync::atomic::Ordering::Relaxed);
    if mm > 0 {
        rep.machinery_error(format!(
            "histmc: {} states rebuilt by replay did not reproduce a recorded fingerprint (engine nondeterminism or state outside the Database value)",
            mm
        ));
    }
    if let Some(last) = frontier.last() {
        if stats.samples.len() < 4 {
            stats.samples.push(last.hist.clone());
        }
    }
    drop(frontier);
    drop(seen);
    trim_heap();
    stats
}

#[cfg(all(target_os = "linux", target_env = "gnu"))]
fn trim_heap() {
    extern "C" {
        fn malloc_trim(pad: usize) -> i32;
    }
    unsafe {
        malloc_trim(0);
    }
}
#[cfg(not(all(target_os = "linux", target_env = "gnu")))]
fn trim_heap() {}

fn key_of<S: Spec>(spec: &S, db: &Database, m: &S::M) -> u128 {
    let mut s = crate::fp::canon(db);
    s.push_str("\u{1}");
    s.push_str(&spec.model_key(m));
    crate::util::hash128(s.as_bytes())
}

pub fn stats_into(rep: &mut Report, prefix: &str, st: &Stats) {
    use serde_json::json;
    rep.set(&format!("{}states", prefix), json!(st.states));
    rep.set(&format!("{}transitions", prefix), json!(st.transitions));
    rep.set(&format!("{}depth_completed", prefix), json!(st.depth_completed));
    rep.set(&format!("{}capped", prefix), json!(st.capped));
    rep.set(&format!("{}lazy_frontier_from_depth", prefix), json!(st.lazy_from_depth));
    rep.set(&format!("{}states_per_depth", prefix), json!(st.per_depth_states));
    rep.set(
        &format!("{}transition_outcomes", prefix),
        json!({"ok": st.ok_transitions, "err": st.err_transitions, "panic": st.panic_transitions}),
    );
}
