//! Canonical fingerprint of a whole `Database` value derived from its `Debug` output
//! (DESIGN §4 E2): entries of anonymous `{…}` nodes (HashMap/HashSet) are sorted, masked
//! fields dropped. A field added by a future change is included automatically.

use vibesql_storage::Database;

/// Fields that cannot influence any future observation (see DESIGN §4 E2).
const MASK: &[&str] = &["last_access", "access_count", "query_buffer_pool", "next_transaction_id"];

pub fn canon_debug(text: &str) -> String {
    let chars: Vec<char> = text.chars().collect();
    let mut pos = 0usize;
    let entries = parse_seq(&chars, &mut pos, None);
    entries.join(",")
}

fn is_ident_end(s: &str) -> bool {
    s.trim_end().chars().last().map(|c| c.is_alphanumeric() || c == '_' || c == '>').unwrap_or(false)
}

fn parse_seq(c: &[char], pos: &mut usize, close: Option<char>) -> Vec<String> {
    let mut entries: Vec<String> = vec![];
    let mut cur = String::new();
    while *pos < c.len() {
        let ch = c[*pos];
        match ch {
            '"' => {
                // string literal with escapes
                cur.push(ch);
                *pos += 1;
                while *pos < c.len() {
                    let d = c[*pos];
                    cur.push(d);
                    *pos += 1;
                    if d == '\\' && *pos < c.len() {
                        cur.push(c[*pos]);
                        *pos += 1;
                    } else if d == '"' {
                        break;
                    }
                }
            }
            '\'' => {
                // char literal 'x' or '\x' ; lifetimes do not occur in Debug output
                cur.push(ch);
                *pos += 1;
                let mut n = 0;
                while *pos < c.len() && n < 12 {
                    let d = c[*pos];
                    cur.push(d);
                    *pos += 1;
                    n += 1;
                    if d == '\\' && *pos < c.len() {
                        cur.push(c[*pos]);
                        *pos += 1;
                    } else if d == '\'' {
                        break;
                    }
                }
            }
            '{' | '[' | '(' => {
                let anon_brace = ch == '{' && !is_ident_end(&cur);
                *pos += 1;
                let closer = match ch {
                    '{' => '}',
                    '[' => ']',
                    _ => ')',
                };
                let mut inner = parse_seq(c, pos, Some(closer));
                if anon_brace {
                    inner.sort();
                } else if ch == '{' {
                    sibling_masks(&mut inner);
                }
                cur.push(ch);
                cur.push_str(&inner.join(","));
                cur.push(closer);
            }
            '}' | ']' | ')' if Some(ch) == close => {
                *pos += 1;
                push_entry(&mut entries, cur);
                return entries;
            }
            ',' => {
                *pos += 1;
                push_entry(&mut entries, std::mem::take(&mut cur));
            }
            _ if ch.is_whitespace() => {
                *pos += 1;
            }
            _ => {
                cur.push(ch);
                *pos += 1;
            }
        }
    }
    push_entry(&mut entries, cur);
    entries
}

/// Masks that depend on sibling fields of the same struct:
/// * `modifications_since_stats` is only read while `statistics` is `Some` and is reset whenever
///   statistics are computed, so with `statistics: None` it cannot influence any future.
/// * the transaction `id` (sibling of `original_catalog`) is never read.
fn sibling_masks(inner: &mut Vec<String>) {
    if inner.iter().any(|e| e == "statistics:None") {
        inner.retain(|e| !e.starts_with("modifications_since_stats:"));
    }
    if inner.iter().any(|e| e.starts_with("original_catalog:")) {
        inner.retain(|e| !e.starts_with("id:"));
    }
}

fn push_entry(entries: &mut Vec<String>, e: String) {
    if e.is_empty() {
        return;
    }
    for m in MASK {
        if e.starts_with(m) && e[m.len()..].starts_with(':') {
            return;
        }
    }
    entries.push(e);
}

pub fn canon(db: &Database) -> String {
    canon_debug(&format!("{:?}", db))
}

pub fn fingerprint(db: &Database) -> u128 {
    crate::util::hash128(canon(db).as_bytes())
}
