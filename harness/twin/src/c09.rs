//! C09 — UPDATE and DELETE act on exactly the rows their WHERE clause selects; INSERT adds exactly the
//! given rows (DESIGN §5 C09).
//!
//! Pre-states: every subset (≤ 3 rows, in menu order) of a small row menu under the primary-key
//! shapes, plus every state reached from them by a short history over a DML alphabet (positions
//! shifted by DELETE, keys changed by UPDATE, rows appended by INSERT), merged on the whole-database
//! fingerprint. At every pre-state every statement of a large menu is executed on a clone:
//!   DELETE … WHERE p  — count = |S_p| and table = pre − S_p, where S_p is what the engine's own
//!                       `SELECT * FROM t WHERE p` returns on the pre-state;
//!   UPDATE … SET a WHERE p — count = |S_p| and table = pre − S_p + { a(r) | r ∈ S_p } with the SET list
//!                       evaluated on the pre-update row by a ten-line evaluator (col, literal, col + k);
//!   INSERT … VALUES   — count = number of rows and table = pre + the given rows (by value).
//! Table contents are read from storage (`Table::scan`), not through SELECT.

use std::collections::{BTreeMap, BTreeSet, HashSet};

use serde_json::{json, Value};
use vcore::exec::{self, Out};
use vcore::report::Report;
use vcore::util;
use vibesql_storage::Database;

use crate::tw::{self, V};

const COLS: [&str; 5] = ["id", "v", "w", "s", "d"];

#[derive(Clone, Copy, PartialEq, Eq, Debug)]
enum Pk {
    None,
    Single,
    Composite,
    Bigint,
    Double,
}

impl Pk {
    fn key(self) -> &'static str {
        match self {
            Pk::None => "none",
            Pk::Single => "single",
            Pk::Composite => "composite",
            Pk::Bigint => "single_bigint",
            Pk::Double => "single_double",
        }
    }
    fn ddl(self) -> &'static str {
        match self {
            Pk::None => "CREATE TABLE t (id INT, v INT, w INT, s VARCHAR(10), d DOUBLE)",
            Pk::Single => "CREATE TABLE t (id INT PRIMARY KEY, v INT, w INT, s VARCHAR(10), d DOUBLE)",
            Pk::Composite => "CREATE TABLE t (id INT, v INT, w INT, s VARCHAR(10), d DOUBLE, PRIMARY KEY (id, v))",
            Pk::Bigint => "CREATE TABLE t (id BIGINT PRIMARY KEY, v INT, w INT, s VARCHAR(10), d DOUBLE)",
            Pk::Double => "CREATE TABLE t (id DOUBLE PRIMARY KEY, v INT, w INT, s VARCHAR(10), d DOUBLE)",
        }
    }
    fn from(s: &str) -> Pk {
        match s {
            "single" => Pk::Single,
            "composite" => Pk::Composite,
            "single_bigint" => Pk::Bigint,
            "single_double" => Pk::Double,
            _ => Pk::None,
        }
    }
}

const ROWS: [&str; 5] = ["(1, 1, 0, 'a', 0.5)", "(2, 0, 1, 'ab', 1)", "(3, NULL, 2, NULL, NULL)", "(4, 2, NULL, 'b', 1.5)", "(1, 5, 5, 'a', 2)"];

fn row_menu(pk: Pk) -> Vec<usize> {
    match pk {
        Pk::None => vec![0, 1, 2, 3, 4],
        Pk::Single | Pk::Bigint | Pk::Double => vec![0, 1, 2, 3],
        Pk::Composite => vec![0, 1, 3, 4], // key columns are NOT NULL; (1,1) and (1,5) share id
    }
}

fn subsets(items: &[usize], max: usize) -> Vec<Vec<usize>> {
    let mut out = vec![];
    for mask in 0u32..(1 << items.len()) {
        if (mask.count_ones() as usize) <= max {
            out.push(items.iter().enumerate().filter(|(i, _)| mask & (1 << i) != 0).map(|(_, x)| *x).collect());
        }
    }
    out.sort_by_key(|s: &Vec<usize>| s.len());
    out
}

fn history_alphabet(thorough: bool) -> Vec<&'static str> {
    let mut a = vec![
        "DELETE FROM t WHERE id = 1",
        "DELETE FROM t WHERE v = 0",
        "UPDATE t SET id = id + 10 WHERE id = 2",
        "UPDATE t SET v = 7 WHERE id = 1",
        "INSERT INTO t VALUES (7, 1, 1, 'a', 1)",
        "DELETE FROM t",
        "UPDATE t SET v = w, w = v",
    ];
    if thorough {
        a.extend(["DELETE FROM t WHERE id > 2", "INSERT INTO t VALUES (8, 3, 0, 'ab', 0.5), (9, 4, 4, NULL, NULL)", "UPDATE t SET id = 1 WHERE id = 4", "DELETE FROM t WHERE w IS NULL", "UPDATE t SET s = 'a'"]);
    }
    a
}

// ------------------------------------------------------------------------------------------------
// statement menu

#[derive(Clone, Debug)]
enum E {
    Col(usize),
    Lit(V),
    Add(usize, i128),
}

#[derive(Clone, Debug)]
struct SetList {
    name: &'static str,
    sql: &'static str,
    asg: Vec<(usize, E)>,
}

fn num(i: i128) -> V {
    V::Num(Some(i), i as f64)
}

fn set_lists() -> Vec<SetList> {
    vec![
        SetList { name: "v=v+1", sql: "v = v + 1", asg: vec![(1, E::Add(1, 1))] },
        SetList { name: "swap", sql: "v = w, w = v", asg: vec![(1, E::Col(2)), (2, E::Col(1))] },
        SetList { name: "id=id+10", sql: "id = id + 10", asg: vec![(0, E::Add(0, 10))] },
        SetList { name: "v=lit", sql: "v = 7", asg: vec![(1, E::Lit(num(7)))] },
        SetList { name: "w=v,v=lit", sql: "w = v, v = 3", asg: vec![(2, E::Col(1)), (1, E::Lit(num(3)))] },
        SetList { name: "s=lit", sql: "s = 'zz'", asg: vec![(3, E::Lit(V::Str("zz".into())))] },
        SetList { name: "w=null", sql: "w = NULL", asg: vec![(2, E::Lit(V::Null))] },
        SetList { name: "d=v", sql: "d = v", asg: vec![(4, E::Col(1))] },
    ]
}

fn apply_sets(row: &[V], sl: &SetList) -> Vec<V> {
    let mut out = row.to_vec();
    for (c, e) in &sl.asg {
        out[*c] = match e {
            E::Col(k) => row[*k].clone(),
            E::Lit(v) => v.clone(),
            E::Add(k, n) => match &row[*k] {
                V::Num(Some(i), _) => num(i + n),
                V::Num(None, f) => V::Num(None, f + *n as f64),
                _ => V::Null,
            },
        };
    }
    out
}

#[derive(Clone, Debug)]
struct Pred {
    sql: String,
    fam: &'static str,
    shape: String,
}

fn preds(thorough: bool) -> Vec<Pred> {
    let atoms: Vec<(&str, &str)> = vec![
        ("id = 1", "pk=int"),
        ("id = 1.0", "pk=intfloat"),
        ("1.0 = id", "intfloat=pk"),
        ("1 = id", "int=pk"),
        ("id = 2", "pk=int"),
        ("id = NULL", "pk=null"),
        ("id = 9", "pk=absent"),
        ("id = 1.5", "pk=frac"),
        ("id = 1 + 0", "pk=expr"),
        ("id = 11", "pk=int"),
        ("1", "truthy_int"),
        ("0", "falsy_int"),
        ("v", "truthy_col"),
        ("w", "truthy_col"),
        ("NULL", "null_literal"),
        ("TRUE", "bool_literal"),
        ("FALSE", "bool_literal"),
        ("v + 1", "truthy_expr"),
        ("d", "truthy_double_col"),
        ("v = 1", "col=int"),
        ("v = 1.0", "col=intfloat"),
        ("v <> 1", "col<>int"),
        ("v > 0", "col>int"),
        ("v >= w", "col>=col"),
        ("v = w", "col=col"),
        ("v IS NULL", "is_null"),
        ("v IS NOT NULL", "is_not_null"),
        ("v IN (1, 2)", "in"),
        ("v IN (1, NULL)", "in_null"),
        ("v NOT IN (1, NULL)", "not_in_null"),
        ("v NOT IN (1, 2)", "not_in"),
        ("v BETWEEN 0 AND 1", "between"),
        ("v NOT BETWEEN 0 AND 1", "not_between"),
        ("s = 'a'", "str="),
        ("s LIKE 'a%'", "like"),
        ("s IS NULL", "is_null"),
        ("d = 1", "double=int"),
        ("d > 0.5", "double>frac"),
        ("id = 1 AND v = 1", "pk_full_key"),
        ("v = 1 AND id = 1", "pk_full_key"),
        ("id = 1 AND v = 1.0", "pk_full_key_intfloat"),
        ("id = 1 AND v = 5", "pk_full_key"),
        ("id IN (1, 2)", "pk_in"),
        ("id BETWEEN 1 AND 2", "pk_between"),
        ("id > 1", "pk>int"),
    ];
    let mut out: Vec<Pred> = atoms.iter().map(|(s, sh)| Pred { sql: s.to_string(), fam: "atom", shape: sh.to_string() }).collect();
    for (s, sh) in &atoms {
        out.push(Pred { sql: format!("NOT ({})", s), fam: "not", shape: sh.to_string() });
    }
    let core: Vec<(&str, &str)> = {
        let names = ["id = 1", "id = 1.0", "id = NULL", "1", "v", "v = 1", "v > 0", "v IS NULL", "v IN (1, NULL)", "w", "s = 'a'", "v = w", "id = 2", "0"];
        let n = if thorough { names.len() } else { 9 };
        names.iter().take(n).map(|x| *atoms.iter().find(|(s, _)| s == x).unwrap()).collect()
    };
    for (a, ash) in &core {
        for (b, bsh) in &core {
            out.push(Pred { sql: format!("{} AND {}", a, b), fam: "and", shape: format!("{}&{}", ash, bsh) });
            out.push(Pred { sql: format!("{} OR {}", a, b), fam: "or", shape: format!("{}|{}", ash, bsh) });
        }
    }
    for (a, ash) in core.iter().take(6) {
        for (b, bsh) in core.iter().take(6) {
            out.push(Pred { sql: format!("NOT ({} AND {})", a, b), fam: "not_and", shape: format!("{}&{}", ash, bsh) });
            out.push(Pred { sql: format!("{} AND NOT ({})", a, b), fam: "and_not", shape: format!("{}&{}", ash, bsh) });
            if thorough {
                out.push(Pred { sql: format!("({} OR {}) AND v IS NOT NULL", a, b), fam: "or_and", shape: format!("{}|{}", ash, bsh) });
            }
        }
    }
    out
}

#[derive(Clone, Debug)]
enum Op {
    Delete { pred: Option<usize> },
    Update { pred: Option<usize>, set: usize },
    Insert { sql: String, name: &'static str, rows: Vec<Vec<V>> },
}

fn s(x: &str) -> V {
    V::Str(x.into())
}

fn f(x: f64) -> V {
    V::Num(None, x)
}

fn inserts() -> Vec<Op> {
    let mk = |sql: &str, name: &'static str, rows: Vec<Vec<V>>| Op::Insert { sql: sql.to_string(), name, rows };
    vec![
        mk("INSERT INTO t VALUES (6, 3, 3, 'c', 2.5)", "full_row", vec![vec![num(6), num(3), num(3), s("c"), f(2.5)]]),
        mk("INSERT INTO t VALUES (6, 3, 3, 'c', 2.5), (7, 4, NULL, NULL, NULL)", "two_rows", vec![vec![num(6), num(3), num(3), s("c"), f(2.5)], vec![num(7), num(4), V::Null, V::Null, V::Null]]),
        mk("INSERT INTO t VALUES (6.0, 3.0, 3, 'c', 2.5)", "intfloat_into_int", vec![vec![num(6), num(3), num(3), s("c"), f(2.5)]]),
        mk("INSERT INTO t VALUES (6, 3, 3, 'c', 2)", "int_into_double", vec![vec![num(6), num(3), num(3), s("c"), num(2)]]),
        mk("INSERT INTO t (id, v) VALUES (6, 3)", "column_list_prefix", vec![vec![num(6), num(3), V::Null, V::Null, V::Null]]),
        mk("INSERT INTO t (v, id) VALUES (3, 6)", "column_list_reordered", vec![vec![num(6), num(3), V::Null, V::Null, V::Null]]),
        mk("INSERT INTO t (s, d, w, v, id) VALUES ('c', 2.5, 3, 3, 6)", "column_list_reversed", vec![vec![num(6), num(3), num(3), s("c"), f(2.5)]]),
        mk("INSERT INTO t (id, v, s) VALUES (6, 3, 'c'), (7, 3, 'd')", "column_list_two_rows", vec![vec![num(6), num(3), V::Null, s("c"), V::Null], vec![num(7), num(3), V::Null, s("d"), V::Null]]),
        mk("INSERT INTO t VALUES (1, 1, 9, 'dup', 9)", "existing_key", vec![vec![num(1), num(1), num(9), s("dup"), num(9)]]),
        mk("INSERT INTO t VALUES (6, 1 + 2, 3, 'c', 0.5 + 2)", "expressions", vec![vec![num(6), num(3), num(3), s("c"), f(2.5)]]),
        mk("INSERT INTO t VALUES (6, 9007199254740993, 3, '', 0)", "big_int_empty_string", vec![vec![num(6), num(9007199254740993), num(3), s(""), num(0)]]),
        mk("INSERT INTO t VALUES (6, 3, 3, 'it''s', 2.5)", "quote_in_string", vec![vec![num(6), num(3), num(3), s("it's"), f(2.5)]]),
        mk("INSERT INTO t VALUES (6, 3, 3, 'c', 2.5), (6, 3, 3, 'c', 2.5)", "same_row_twice", vec![vec![num(6), num(3), num(3), s("c"), f(2.5)], vec![num(6), num(3), num(3), s("c"), f(2.5)]]),
    ]
}

fn op_menu(thorough: bool, preds: &[Pred], sets: &[SetList]) -> Vec<Op> {
    let mut ops = vec![Op::Delete { pred: None }];
    for si in 0..sets.len() {
        ops.push(Op::Update { pred: None, set: si });
    }
    for pi in 0..preds.len() {
        ops.push(Op::Delete { pred: Some(pi) });
        let atomish = matches!(preds[pi].fam, "atom" | "not");
        for si in 0..sets.len() {
            // quick: `v = v + 1` on every predicate; swap, key change and two more SET lists on the atoms and their negations
            if thorough || si == 0 || (atomish && si < 5) {
                ops.push(Op::Update { pred: Some(pi), set: si });
            }
        }
    }
    ops.extend(inserts());
    ops
}

fn op_sql(op: &Op, preds: &[Pred], sets: &[SetList]) -> String {
    match op {
        Op::Delete { pred: None } => "DELETE FROM t".into(),
        Op::Delete { pred: Some(p) } => format!("DELETE FROM t WHERE {}", preds[*p].sql),
        Op::Update { pred: None, set } => format!("UPDATE t SET {}", sets[*set].sql),
        Op::Update { pred: Some(p), set } => format!("UPDATE t SET {} WHERE {}", sets[*set].sql, preds[*p].sql),
        Op::Insert { sql, .. } => sql.clone(),
    }
}

// ------------------------------------------------------------------------------------------------
// the oracle

fn table_rows(db: &Database) -> Vec<Vec<V>> {
    vcore::obs::rows_of(db, "T").iter().map(|r| tw::row_of(r)).collect()
}

enum Verdict {
    Holds,
    SelectRejects,
    DmlRejects,
    Fails(String),
}

/// Execute `dml` on a clone of `pre` and compare with the oracle. `select` = the SELECT that defines S_p
/// (None for INSERT); `sets` = SET list for UPDATE; `ins` = rows for INSERT.
fn select_rows(pre: &Database, q: &str) -> Option<Vec<Vec<V>>> {
    match exec::select(pre, q) {
        Out::Rows(r) => Some(r.iter().map(|x| tw::row_of(x)).collect()),
        _ => None,
    }
}

fn judge(pre: &Database, dml: &str, select: Option<&str>, sets: Option<&SetList>, ins: Option<&[Vec<V>]>) -> Verdict {
    let sp = match select {
        Some(q) => match select_rows(pre, q) {
            Some(r) => Some(r),
            None => return Verdict::SelectRejects,
        },
        None => None,
    };
    judge_with(pre, dml, sp.as_deref(), sets, ins)
}

/// `sp` = rows of SELECT * FROM t WHERE p on `pre` (None for INSERT)
fn judge_with(pre: &Database, dml: &str, sp: Option<&[Vec<V>]>, sets: Option<&SetList>, ins: Option<&[Vec<V>]>) -> Verdict {
    let before = table_rows(pre);
    let sp: Vec<Vec<V>> = sp.map(|x| x.to_vec()).unwrap_or_default();
    let mut post = pre.clone();
    let out = exec::exec(&mut post, dml);
    let n = match &out {
        Out::Count(n) => *n,
        Out::Panic(m) => return Verdict::Fails(format!("the statement panicked: {}", util::trunc(m, 200))),
        _ => return Verdict::DmlRejects,
    };
    let after = tw::bag_of(&table_rows(&post));
    let b_before = tw::bag_of(&before);
    let (expected, want_n, label) = match (sets, ins) {
        (_, Some(rows)) => (tw::bag_plus(&b_before, &tw::bag_of(rows)), rows.len(), "the given rows".to_string()),
        (Some(sl), None) => {
            let b_sp = tw::bag_of(&sp);
            if !tw::sub_bag(&b_sp, &b_before) {
                return Verdict::SelectRejects; // SELECT returned something that is not a table row: not this property's business
            }
            let newr: Vec<Vec<V>> = sp.iter().map(|r| apply_sets(r, sl)).collect();
            (tw::bag_plus(&tw::bag_minus(&b_before, &b_sp), &tw::bag_of(&newr)), sp.len(), format!("SELECT … WHERE selects {}", tw::fmt_rows(&sp)))
        }
        (None, None) => {
            let b_sp = tw::bag_of(&sp);
            if !tw::sub_bag(&b_sp, &b_before) {
                return Verdict::SelectRejects;
            }
            (tw::bag_minus(&b_before, &b_sp), sp.len(), format!("SELECT … WHERE selects {}", tw::fmt_rows(&sp)))
        }
    };
    if n != want_n {
        return Verdict::Fails(format!("reported count {} but {} ({} rows); table before {} after {}", n, label, want_n, tw::fmt_rows(&before), tw::fmt_bag(&after)));
    }
    if after != expected {
        return Verdict::Fails(format!("table after the statement is {} but should be {} ({}; before: {})", tw::fmt_bag(&after), tw::fmt_bag(&expected), label, tw::fmt_rows(&before)));
    }
    Verdict::Holds
}

/// Selections of one pre-state: index 0 = no WHERE, index p + 1 = predicate p; evaluated once, shared by the
/// DELETE and every UPDATE with that predicate. Outer None = not evaluated yet, inner None = SELECT rejects it.
type SelCache = Vec<Option<Option<Vec<Vec<V>>>>>;

fn judge_op(pre: &Database, op: &Op, preds: &[Pred], sets: &[SetList], cache: &mut SelCache) -> Verdict {
    let dml = op_sql(op, preds, sets);
    let mut sel = |pred: &Option<usize>| -> Option<Vec<Vec<V>>> {
        let slot = pred.map(|p| p + 1).unwrap_or(0);
        if cache[slot].is_none() {
            let q = pred.map(|p| format!("SELECT * FROM t WHERE {}", preds[p].sql)).unwrap_or_else(|| "SELECT * FROM t".into());
            cache[slot] = Some(select_rows(pre, &q));
        }
        cache[slot].clone().unwrap()
    };
    match op {
        Op::Delete { pred } => match sel(pred) {
            Some(sp) => judge_with(pre, &dml, Some(&sp), None, None),
            None => Verdict::SelectRejects,
        },
        Op::Update { pred, set } => match sel(pred) {
            Some(sp) => judge_with(pre, &dml, Some(&sp), Some(&sets[*set]), None),
            None => Verdict::SelectRejects,
        },
        Op::Insert { rows, .. } => judge_with(pre, &dml, None, None, Some(rows)),
    }
}

// ------------------------------------------------------------------------------------------------
// states, cases, replay

fn build_state(pk: Pk, rows: &[usize], steps: &[String]) -> Result<Database, String> {
    let mut db = exec::fresh(&[pk.ddl()]);
    if !rows.is_empty() {
        let sql = format!("INSERT INTO t VALUES {}", rows.iter().map(|r| ROWS[*r]).collect::<Vec<_>>().join(", "));
        let o = exec::exec(&mut db, &sql);
        if !o.is_ok() {
            return Err(format!("initial rows rejected: {} => {}", sql, o.brief()));
        }
    }
    for st in steps {
        let _ = exec::exec(&mut db, st);
    }
    Ok(db)
}

fn hist_kinds(h: &[String]) -> String {
    let mut k = BTreeSet::new();
    for st in h {
        k.insert(if st == "DELETE FROM t" { "DELETE-ALL" } else { st.split_whitespace().next().unwrap_or("") });
    }
    if k.is_empty() {
        "none".into()
    } else {
        k.into_iter().collect::<Vec<_>>().join("+")
    }
}

fn case_json(pk: Pk, rows: &[usize], hist: &[String], op: &Op, preds: &[Pred], sets: &[SetList]) -> Value {
    let (kind, select, set, ins) = match op {
        Op::Delete { pred } => ("delete", Some(pred.map(|p| format!("SELECT * FROM t WHERE {}", preds[p].sql)).unwrap_or_else(|| "SELECT * FROM t".into())), None, None),
        Op::Update { pred, set } => ("update", Some(pred.map(|p| format!("SELECT * FROM t WHERE {}", preds[p].sql)).unwrap_or_else(|| "SELECT * FROM t".into())), Some(sets[*set].name), None),
        Op::Insert { name, .. } => ("insert", None, None, Some(*name)),
    };
    json!({
        "pk": pk.key(),
        "create": pk.ddl(),
        "rows": rows,
        "initial_rows": rows.iter().map(|r| ROWS[*r]).collect::<Vec<_>>(),
        "steps": hist,
        "kind": kind,
        "statement": op_sql(op, preds, sets),
        "select": select,
        "set": set,
        "insert": ins,
        "note": "run create, INSERT the initial rows in one statement, the steps; then compare `statement` on a clone with `select` on the same state"
    })
}

fn eval_case(case: &Value, verbose: bool) -> Result<Option<String>, String> {
    let pk = Pk::from(case["pk"].as_str().unwrap_or("none"));
    let rows: Vec<usize> = case["rows"].as_array().map(|a| a.iter().filter_map(|x| x.as_u64().map(|u| u as usize)).collect()).unwrap_or_default();
    let steps: Vec<String> = case["steps"].as_array().map(|a| a.iter().filter_map(|x| x.as_str().map(|s| s.to_string())).collect()).unwrap_or_default();
    let pre = build_state(pk, &rows, &steps)?;
    let dml = case["statement"].as_str().ok_or("no statement")?;
    let select = case["select"].as_str();
    let sets = set_lists();
    let sl = case["set"].as_str().and_then(|n| sets.iter().find(|x| x.name == n));
    let all_ins = inserts();
    let ins: Option<Vec<Vec<V>>> = case["insert"].as_str().and_then(|n| {
        all_ins.iter().find_map(|o| match o {
            Op::Insert { name, rows, .. } if *name == n => Some(rows.clone()),
            _ => None,
        })
    });
    if verbose {
        println!("{}", pk.ddl());
        println!("-- table before: {}", tw::fmt_rows(&table_rows(&pre)));
        if let Some(q) = select {
            println!("{}\n   => {}", q, exec::select(&pre, q).brief());
        }
        let mut c = pre.clone();
        let o = exec::exec(&mut c, dml);
        println!("{}\n   => {}", dml, o.brief());
        println!("-- table after:  {}", tw::fmt_rows(&table_rows(&c)));
    }
    Ok(match judge(&pre, dml, select, sl, ins.as_deref()) {
        Verdict::Fails(w) => Some(w),
        _ => None,
    })
}

pub fn replay(case: &Value) -> i32 {
    match eval_case(case, true) {
        Ok(Some(w)) => {
            println!("VERDICT: violated — {}", w);
            1
        }
        Ok(None) => {
            println!("VERDICT: holds on this tree");
            0
        }
        Err(e) => {
            eprintln!("MACHINERY-ERROR {}", e);
            2
        }
    }
}

// ------------------------------------------------------------------------------------------------
// exploration

struct State {
    pk: Pk,
    rows: Vec<usize>,
    hist: Vec<String>,
    db: Database,
}

#[derive(Default)]
struct Res {
    fails: Vec<(Vec<(&'static str, String)>, String, Value)>,
    checked: u64,
    select_rejects: u64,
    dml_rejects: u64,
    affected_some: u64,
    affected_all: u64,
    by_kind: BTreeMap<&'static str, u64>,
    outcomes: HashSet<u64>,
}

pub fn run(tier: &str) -> i32 {
    let mut rep = Report::new("C09", tier, "model_checking");
    vibesql_types::verif::reset();
    let thorough = tier == "thorough";
    let max_secs: f64 = std::env::var("VERIF_C09_SECS").ok().and_then(|s| s.parse().ok()).unwrap_or(if thorough { 800.0 } else { 17.0 });
    let preds = preds(thorough);
    let sets = set_lists();
    let ops = op_menu(thorough, &preds, &sets);
    let halpha: Vec<String> = history_alphabet(thorough).into_iter().map(|s| s.to_string()).collect();
    let hdepth = if thorough { 2 } else { 1 };

    // initial states
    let mut states: Vec<State> = vec![];
    let mut seen: HashSet<u128> = HashSet::new();
    let mut level: Vec<usize> = vec![];
    for pk in [Pk::None, Pk::Single, Pk::Composite, Pk::Bigint, Pk::Double] {
        // the two extra key types differ from `single` only in the key representation: full-size tables only
        let all = subsets(&row_menu(pk), 3);
        let all: Vec<Vec<usize>> = if matches!(pk, Pk::Bigint | Pk::Double) { all.into_iter().filter(|r| r.len() == 3).take(if thorough { 4 } else { 1 }).collect() } else { all };
        for rows in all {
            match build_state(pk, &rows, &[]) {
                Ok(db) => {
                    if seen.insert(vcore::fp::fingerprint(&db)) {
                        level.push(states.len());
                        states.push(State { pk, rows, hist: vec![], db });
                    }
                }
                Err(e) => {
                    // a subset the key shape forbids (duplicate key) is not a state
                    if !e.contains("rejected") {
                        rep.machinery_error(e);
                    }
                }
            }
        }
    }
    let n_initial = states.len();
    // history closure (BFS, merged on the whole-database fingerprint)
    let mut transitions = 0u64;
    let mut per_depth = vec![n_initial as u64];
    for d in 1..=hdepth {
        let mut next = vec![];
        for &i in &level {
            // quick tier: histories only from the state holding the first three menu rows of each key shape
            if !thorough && states[i].rows != row_menu(states[i].pk)[..3] {
                continue;
            }
            for op in &halpha {
                let mut db = states[i].db.clone();
                let o = exec::exec(&mut db, op);
                transitions += 1;
                if !o.is_ok() {
                    continue;
                }
                if seen.insert(vcore::fp::fingerprint(&db)) {
                    let mut hist = states[i].hist.clone();
                    hist.push(op.clone());
                    next.push(State { pk: states[i].pk, rows: states[i].rows.clone(), hist, db });
                }
            }
        }
        level = (states.len()..states.len() + next.len()).collect();
        states.extend(next);
        per_depth.push(level.len() as u64);
        let _ = d;
    }

    // examination order: round-robin over the key shapes (a run cut short by the time cap has then seen every shape),
    // inside a shape the larger tables and the states with a history first
    {
        let mut by_pk: Vec<Vec<State>> = vec![vec![], vec![], vec![], vec![], vec![]];
        for st in states.drain(..) {
            let k = match st.pk {
                Pk::None => 0,
                Pk::Single => 1,
                Pk::Composite => 2,
                Pk::Bigint => 3,
                Pk::Double => 4,
            };
            by_pk[k].push(st);
        }
        for v in by_pk.iter_mut() {
            v.sort_by_key(|st| (std::cmp::Reverse(st.rows.len()), std::cmp::Reverse(st.hist.len())));
            v.reverse(); // pop() takes from the end
        }
        loop {
            let mut any = false;
            for v in by_pk.iter_mut() {
                if let Some(st) = v.pop() {
                    states.push(st);
                    any = true;
                }
            }
            if !any {
                break;
            }
        }
    }

    // every statement of the menu at every state
    let deadline = std::sync::atomic::AtomicBool::new(false);
    let results: Vec<Option<Res>> = util::par_map(&states, |_, st| {
        if rep.start.elapsed().as_secs_f64() > max_secs {
            deadline.store(true, std::sync::atomic::Ordering::Relaxed);
            return None;
        }
        let mut r = Res::default();
        let n_rows = table_rows(&st.db).len();
        let mut cache: SelCache = vec![None; preds.len() + 1];
        for (oi, op) in ops.iter().enumerate() {
            if oi % 50 == 0 && rep.start.elapsed().as_secs_f64() > max_secs {
                deadline.store(true, std::sync::atomic::Ordering::Relaxed);
                return None; // time cap: this state is not counted as examined
            }
            let kind = match op {
                Op::Delete { .. } => "delete",
                Op::Update { .. } => "update",
                Op::Insert { .. } => "insert",
            };
            match judge_op(&st.db, op, &preds, &sets, &mut cache) {
                Verdict::Holds => {
                    r.checked += 1;
                    *r.by_kind.entry(kind).or_insert(0) += 1;
                }
                Verdict::SelectRejects => r.select_rejects += 1,
                Verdict::DmlRejects => r.dml_rejects += 1,
                Verdict::Fails(what) => {
                    r.checked += 1;
                    *r.by_kind.entry(kind).or_insert(0) += 1;
                    let (pfam, pshape, setn) = match op {
                        Op::Delete { pred } => (pred.map(|p| preds[p].fam).unwrap_or("no_where"), pred.map(|p| preds[p].shape.clone()).unwrap_or_default(), "-"),
                        Op::Update { pred, set } => (pred.map(|p| preds[p].fam).unwrap_or("no_where"), pred.map(|p| preds[p].shape.clone()).unwrap_or_default(), sets[*set].name),
                        Op::Insert { name, .. } => ("insert", name.to_string(), "-"),
                    };
                    let sig = vec![("stmt", kind.to_string()), ("pk", st.pk.key().to_string()), ("pred_family", pfam.to_string()), ("pred", pshape), ("set", setn.to_string()), ("history", hist_kinds(&st.hist))];
                    let what = format!("`{}` [pk shape {}; rows {}; history: {}] {}", op_sql(op, &preds, &sets), st.pk.key(), st.rows.iter().map(|x| ROWS[*x]).collect::<Vec<_>>().join(","), if st.hist.is_empty() { "-".into() } else { st.hist.join("; ") }, what);
                    r.fails.push((sig, what, case_json(st.pk, &st.rows, &st.hist, op, &preds, &sets)));
                }
            }
        }
        // non-vacuity: how selective were the predicates here
        for slot in cache.iter().skip(1) {
            if let Some(Some(rows)) = slot {
                if !rows.is_empty() && rows.len() < n_rows {
                    r.affected_some += 1;
                } else if !rows.is_empty() {
                    r.affected_all += 1;
                }
                r.outcomes.insert(util::hash64(format!("{:?}", tw::bag_of(rows)).as_bytes()));
            }
        }
        Some(r)
    });

    let mut total = Res::default();
    let mut confirmed: HashSet<String> = HashSet::new();
    let mut done_states = 0u64;
    let mut samples: Vec<Value> = vec![];
    // report in simplest-first order (no history before history, fewer rows first) so that the witness kept
    // for a signature is the smallest one, whatever the examination order was
    let mut order: Vec<(&State, Option<Res>)> = states.iter().zip(results).collect();
    order.sort_by_key(|(st, _)| (st.hist.len(), st.rows.len()));
    for (st, r) in order {
        let Some(r) = r else { continue };
        done_states += 1;
        total.checked += r.checked;
        total.select_rejects += r.select_rejects;
        total.dml_rejects += r.dml_rejects;
        total.affected_some += r.affected_some;
        total.affected_all += r.affected_all;
        for (k, v) in r.by_kind {
            *total.by_kind.entry(k).or_insert(0) += v;
        }
        total.outcomes.extend(r.outcomes);
        if samples.len() < 6 && (st.hist.len() == hdepth || samples.len() < 2) {
            samples.push(json!({"pk": st.pk.key(), "initial_rows": st.rows.iter().map(|x| ROWS[*x]).collect::<Vec<_>>(), "history": st.hist, "statements": ops.len(), "failing": r.fails.len()}));
        }
        for (sig, what, case) in r.fails {
            let key = sig.iter().map(|(k, v)| format!("{}={}", k, v)).collect::<Vec<_>>().join(";");
            if confirmed.insert(key) {
                if let Err(e) = tw::confirm(&|| eval_case(&case, false)) {
                    rep.machinery_error(format!("case did not reproduce from scratch: {} :: {}", e, what));
                    continue;
                }
            }
            rep.violation(&sig, what, case);
        }
    }
    let capped = deadline.load(std::sync::atomic::Ordering::Relaxed);
    let (reach, vac) = vcore::report::reach_json(&["update_pk_fast_path", "delete_pk_fast_path", "delete_truncate_fast_path"]);
    rep.set("states", json!(done_states));
    rep.set("initial_states", json!(n_initial));
    rep.set("states_per_history_depth", json!(per_depth));
    rep.set("history_depth_bound", json!(hdepth));
    rep.set("transitions", json!(transitions + total.checked + total.dml_rejects));
    rep.set("traces_validated_against_impl", json!(total.checked));
    rep.set("statements_per_state", json!(ops.len()));
    rep.set("predicates", json!(preds.len()));
    rep.set("set_lists", json!(sets.iter().map(|s| s.sql).collect::<Vec<_>>()));
    rep.set("evaluations", json!(total.checked));
    rep.set("checked_by_statement_kind", json!(total.by_kind));
    rep.set("skipped_select_rejects_predicate", json!(total.select_rejects));
    rep.set("skipped_dml_rejected", json!(total.dml_rejects));
    rep.set("predicate_state_pairs_selecting_some_rows", json!(total.affected_some));
    rep.set("predicate_state_pairs_selecting_all_rows", json!(total.affected_all));
    rep.set("distinct_nontrivial", json!(total.outcomes.len()));
    rep.set("exhaustive", json!(!capped));
    rep.set("capped_by_time", json!(capped));
    rep.set("history_alphabet", json!(halpha));
    rep.set("reach", reach);
    rep.set("vacuous_mechanisms", vac);
    rep.set("samples", json!(samples));
    rep.set("rule", json!("pre-states = all subsets (≤3 rows) of the row menu under PK shapes none/single/composite/BIGINT key/DOUBLE key, closed under histories of the DML alphabet up to the depth bound (merged on the whole-database fingerprint); at every pre-state every DELETE/UPDATE of predicates × SET lists and every INSERT of the menu runs on a clone and is compared with SELECT … WHERE p on the pre-state (count and table bag; SET evaluated on pre-update values by the harness)"));
    rep.assume("a predicate the SELECT rejects is not a case; a DML statement the engine rejects is not a case (the property does not forbid rejection)");
    println!(
        "C09 {}: states={} (initial {}, per history depth {:?}) statements/state={} checked={} {:?} skipped: select-rejects={} dml-rejects={} selective-pairs={} all-rows-pairs={} distinct-selections={} capped={}",
        tier, done_states, n_initial, per_depth, ops.len(), total.checked, total.by_kind, total.select_rejects, total.dml_rejects, total.affected_some, total.affected_all, total.outcomes.len(), capped
    );
    rep.finish()
}

#[allow(dead_code)]
fn _unused() {
    let _ = COLS;
}
