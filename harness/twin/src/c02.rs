//! C02 — query results do not depend on which secondary indexes exist (DESIGN §5 C02).
//!
//! Twin execution. For every index shape of a menu and every DML history (BFS, all sequences of
//! length ≤ L over a fixed alphabet, merged on the full database fingerprint) three databases are
//! kept: `plain` (never sees CREATE INDEX), `maint` (index created right after the prelude rows and
//! maintained through the history) and `fresh` (= `plain` after the history + CREATE INDEX, i.e.
//! the index is built from the final rows). After the history every query of a large menu on the
//! indexed column(s) is executed on the twins:
//!   * same bag of rows on the indexed twin as on `plain` (queries without LIMIT);
//!   * with ORDER BY the indexed twin's sequence must be sorted by the keys, NULLs last
//!     (keys re-read from the returned rows and compared by `tw::cmp_key`, not by the engine);
//!   * with LIMIT/OFFSET the key sequence must equal the plain twin's and every row must occur
//!     in the plain twin's unlimited result.
//! `maint` is only examined when its index contents differ from `fresh`'s (otherwise it is the same
//! database value and the case would be a duplicate).

use std::collections::{BTreeMap, BTreeSet, HashMap, HashSet};
use std::sync::atomic::{AtomicU64, Ordering as AO};

use serde_json::{json, Value};
use vcore::exec::{self, Out};
use vcore::report::Report;
use vcore::util;
use vibesql_storage::Database;

use crate::tw::{self, V};

pub const CREATE: &str = "CREATE TABLE t (id INT, v INT, w INT, s VARCHAR(10), d DOUBLE)";
pub const BASE_ROWS: &str = "INSERT INTO t VALUES (1, 0, 1, 'a', 0.5), (2, 1, 0, 'ab', 1), (3, 1, 1, 'abc', 1.5), (4, NULL, 2, NULL, NULL), (5, 2, NULL, 'b', 0)";

// ------------------------------------------------------------------------------------------------
// index shapes

#[derive(Clone, Debug)]
pub struct Shape {
    pub key: &'static str,
    pub ddl: &'static [&'static str],
    pub names: &'static [&'static str],
    pub lead: &'static str,
    pub other: &'static str,
    pub unique: bool,
    /// required order of `list_indexes_for_table` (two-index shapes; HashMap order is random per database)
    pub order: Option<&'static [&'static str]>,
}

const fn sh(key: &'static str, ddl: &'static [&'static str], names: &'static [&'static str], lead: &'static str, other: &'static str) -> Shape {
    Shape { key, ddl, names, lead, other, unique: false, order: None }
}

pub fn all_shapes() -> Vec<Shape> {
    vec![
        sh("v", &["CREATE INDEX i1 ON t (v)"], &["I1"], "v", "w"),
        sh("v,w", &["CREATE INDEX i1 ON t (v, w)"], &["I1"], "v", "w"),
        sh("s(2)", &["CREATE INDEX i1 ON t (s(2))"], &["I1"], "s", "v"),
        sh("vD,w", &["CREATE INDEX i1 ON t (v DESC, w)"], &["I1"], "v", "w"),
        Shape { order: Some(&["I1", "I2"]), ..sh("v+w/v-first", &["CREATE INDEX i1 ON t (v)", "CREATE INDEX i2 ON t (w)"], &["I1", "I2"], "v", "w") },
        sh("vD", &["CREATE INDEX i1 ON t (v DESC)"], &["I1"], "v", "w"),
        sh("v,wD", &["CREATE INDEX i1 ON t (v, w DESC)"], &["I1"], "v", "w"),
        sh("vD,wD", &["CREATE INDEX i1 ON t (v DESC, w DESC)"], &["I1"], "v", "w"),
        sh("w,v", &["CREATE INDEX i1 ON t (w, v)"], &["I1"], "w", "v"),
        sh("s", &["CREATE INDEX i1 ON t (s)"], &["I1"], "s", "v"),
        sh("s(1)", &["CREATE INDEX i1 ON t (s(1))"], &["I1"], "s", "v"),
        sh("s,v", &["CREATE INDEX i1 ON t (s, v)"], &["I1"], "s", "v"),
        sh("s(2),v", &["CREATE INDEX i1 ON t (s(2), v)"], &["I1"], "s", "v"),
        Shape { unique: true, ..sh("uniq(v)", &["CREATE UNIQUE INDEX i1 ON t (v)"], &["I1"], "v", "w") },
        Shape { unique: true, ..sh("uniq(vD,w)", &["CREATE UNIQUE INDEX i1 ON t (v DESC, w)"], &["I1"], "v", "w") },
        Shape { order: Some(&["I2", "I1"]), ..sh("v+w/w-first", &["CREATE INDEX i1 ON t (v)", "CREATE INDEX i2 ON t (w)"], &["I1", "I2"], "v", "w") },
        sh("d", &["CREATE INDEX i1 ON t (d)"], &["I1"], "d", "w"),
        sh("d,w", &["CREATE INDEX i1 ON t (d, w)"], &["I1"], "d", "w"),
    ]
}

fn shape_by_key(k: &str) -> Option<Shape> {
    all_shapes().into_iter().find(|s| s.key == k)
}

// ------------------------------------------------------------------------------------------------
// history alphabet

pub fn alphabet(thorough: bool) -> Vec<&'static str> {
    let mut a = vec![
        "INSERT INTO t VALUES (6, 3, 1, 'abd', 2.5)",
        "INSERT INTO t VALUES (7, 1, 2, 'a', 1.0)",
        "INSERT INTO t VALUES (8, 9007199254740993, 0, 'abcd', 3), (9, 9007199254740992, 0, 'b', 0.5)",
        "UPDATE t SET v = 2 WHERE id = 1",
        "UPDATE t SET v = v + 1",
        "UPDATE t SET s = 'abz' WHERE id = 2",
        "UPDATE t SET v = NULL WHERE id = 2",
        // NULL -> value on the row that holds NULL from the start (with the statement above: one of two NULL rows)
        "UPDATE t SET v = 7 WHERE id = 4",
        "DELETE FROM t WHERE id = 1",
        "DELETE FROM t WHERE v > 1",
        "DELETE FROM t",
        "#ANALYZE",
    ];
    if thorough {
        a.extend([
            "INSERT INTO t VALUES (10, NULL, NULL, NULL, NULL)",
            "UPDATE t SET w = w + 1 WHERE v = 1",
            "UPDATE t SET s = NULL, d = NULL WHERE id = 3",
            "DELETE FROM t WHERE v IS NULL",
            "DELETE FROM t WHERE s >= 'ab'",
        ]);
    }
    a
}

fn hist_kinds(h: &[String]) -> String {
    let mut k = BTreeSet::new();
    for s in h {
        let w = s.split_whitespace().next().unwrap_or("");
        k.insert(if s == "DELETE FROM t" { "DELETE-ALL".to_string() } else { w.trim_start_matches('#').to_string() });
    }
    k.into_iter().collect::<Vec<_>>().join("+")
}

// ------------------------------------------------------------------------------------------------
// query menu

#[derive(Clone, Debug)]
pub struct Q {
    pub sql: String,
    pub fam: &'static str,
    pub ops: String,
    pub lit: String,
    pub ctx: &'static str,
    /// ORDER BY keys as (column position in `SELECT *`, descending)
    pub order: Vec<(usize, bool)>,
    /// (limit, offset) and the same query without them
    pub limit: Option<(usize, usize, String)>,
    /// parsed once (filled by `finish_menu`)
    pub stmt: Option<vibesql_ast::SelectStmt>,
    /// menu position of the unlimited variant
    pub base: Option<usize>,
    /// member of the core menu (the part that is also run at the deepest history level)
    pub core: bool,
}

#[derive(Clone)]
struct Lit {
    sql: &'static str,
    class: &'static str,
}

const fn l(sql: &'static str, class: &'static str) -> Lit {
    Lit { sql, class }
}

fn num_lits() -> Vec<Lit> {
    vec![
        l("NULL", "null"),
        l("0", "zero"),
        l("1", "int"),
        l("2", "int"),
        l("3", "int"),
        l("0.5", "frac"),
        l("1.0", "intfloat"),
        l("1.5", "frac"),
        l("9007199254740992", "big"),
        l("9007199254740993", "big"),
        l("9223372036854775807", "big"),
    ]
}

fn str_lits() -> Vec<Lit> {
    vec![
        l("NULL", "null"),
        l("''", "len0"),
        l("'a'", "len1"),
        l("'ab'", "len2"),
        l("'abc'", "len3"),
        l("'abd'", "len3"),
        l("'abcd'", "len4"),
        l("'b'", "len1"),
        l("'aa'", "len2"),
    ]
}

fn col_pos(c: &str) -> usize {
    match c {
        "id" => 0,
        "v" => 1,
        "w" => 2,
        "s" => 3,
        "d" => 4,
        _ => unreachable!(),
    }
}

fn classes(ls: &[&Lit]) -> String {
    let mut s: BTreeSet<&str> = BTreeSet::new();
    for x in ls {
        s.insert(x.class);
    }
    s.into_iter().collect::<Vec<_>>().join("+")
}

const OPS5: [&str; 5] = ["=", "<", "<=", ">", ">="];

/// every predicate of the menu with its signature features
fn predicates(c: &str, o: &str, thorough: bool) -> Vec<(String, &'static str, String, String, bool)> {
    // (predicate, family, ops, literal classes, wide: run in all contexts)
    let is_str = c == "s";
    let lits = if is_str { str_lits() } else { num_lits() };
    let mut out: Vec<(String, &'static str, String, String, bool)> = vec![];
    // A: single atoms, both operand orders
    for op in ["=", "<>", "<", "<=", ">", ">="] {
        for x in &lits {
            out.push((format!("{} {} {}", c, op, x.sql), "atom", op.to_string(), x.class.to_string(), true));
            out.push((format!("{} {} {}", x.sql, op, c), "atom", format!("rev{}", op), x.class.to_string(), thorough));
        }
    }
    // B: BETWEEN
    let pairs: Vec<(&str, &str)> = if is_str {
        vec![("'a'", "'ab'"), ("'ab'", "'ab'"), ("'ab'", "'a'"), ("'a'", "'abc'"), ("'abc'", "'b'"), ("''", "'abcd'"), ("NULL", "'b'"), ("'a'", "NULL"), ("'aa'", "'abd'"), ("'abcd'", "'abd'")]
    } else {
        vec![
            ("0", "1"),
            ("1", "1"),
            ("1", "2"),
            ("2", "1"),
            ("0", "3"),
            ("0.5", "1.5"),
            ("1.0", "2"),
            ("NULL", "1"),
            ("1", "NULL"),
            ("0", "9007199254740993"),
            ("9007199254740992", "9223372036854775807"),
            ("3", "9"),
            ("0", "0"),
        ]
    };
    let find = |s: &str| lits.iter().find(|x| x.sql == s).cloned().unwrap_or(Lit { sql: "9", class: "int" });
    for (lo, hi) in &pairs {
        let cl = classes(&[&find(lo), &find(hi)]);
        for (kw, name) in [("BETWEEN", "between"), ("NOT BETWEEN", "not_between"), ("BETWEEN SYMMETRIC", "between_symmetric")] {
            out.push((format!("{} {} {} AND {}", c, kw, lo, hi), "between", name.to_string(), cl.clone(), true));
        }
    }
    // C: IN lists
    let lists: Vec<Vec<&str>> = if is_str {
        vec![vec!["'a'"], vec!["'a'", "'b'"], vec!["'ab'", "'ab'"], vec!["'abc'"], vec!["'abc'", "'abd'"], vec!["'a'", "NULL"], vec!["NULL"], vec!["'zz'"], vec!["'zz'", "NULL"], vec!["'abcd'", "'ab'"], vec!["''", "'b'", "'a'"]]
    } else {
        vec![
            vec!["1"],
            vec!["0", "1"],
            vec!["1", "1"],
            vec!["1", "1.0"],
            vec!["1.0", "1"],
            vec!["0", "2", "1"],
            vec!["1", "NULL"],
            vec!["NULL"],
            vec!["5"],
            vec!["5", "NULL"],
            vec!["9007199254740993"],
            vec!["9007199254740992", "9007199254740993"],
            vec!["0.5"],
            vec!["3", "2", "1", "0"],
            vec!["0", "0.0"],
        ]
    };
    for lst in &lists {
        let ls: Vec<Lit> = lst.iter().map(|s| lits.iter().find(|x| x.sql == *s).cloned().unwrap_or(Lit { sql: "?", class: if is_str { "len2" } else if s.contains('.') { "intfloat" } else { "int" } })).collect();
        let refs: Vec<&Lit> = ls.iter().collect();
        let mut cl = classes(&refs);
        let mut uniq: BTreeSet<&str> = BTreeSet::new();
        if lst.iter().any(|x| !uniq.insert(x)) {
            cl.push_str("+dup");
        }
        for (kw, name) in [("IN", "in"), ("NOT IN", "not_in")] {
            out.push((format!("{} {} ({})", c, kw, lst.join(", ")), "inlist", name.to_string(), cl.clone(), true));
        }
    }
    // D: two atoms on the indexed column
    let mut small: Vec<Lit> = if is_str { vec![l("'a'", "len1"), l("'ab'", "len2"), l("NULL", "null"), l("'abc'", "len3")] } else { vec![l("0", "zero"), l("1", "int"), l("NULL", "null"), l("2", "int")] };
    if !thorough {
        small.truncate(3);
    }
    let mut atoms: Vec<(String, String, Lit)> = vec![];
    for op in OPS5 {
        for x in &small {
            atoms.push((format!("{} {} {}", c, op, x.sql), op.to_string(), x.clone()));
        }
    }
    for (op, x) in [("<", &small[1]), (">=", &small[0]), ("=", &small[1]), (">", &small[2])] {
        atoms.push((format!("{} {} {}", x.sql, op, c), format!("rev{}", op), x.clone()));
    }
    if thorough && !is_str {
        for (op, x) in [(">", l("0.5", "frac")), ("<=", l("1.0", "intfloat")), (">=", l("9007199254740993", "big"))] {
            atoms.push((format!("{} {} {}", c, op, x.sql), op.to_string(), x));
        }
    }
    for (a, aop, al) in &atoms {
        for (b, bop, bl) in &atoms {
            let cl = classes(&[al, bl]);
            out.push((format!("{} AND {}", a, b), "and2", format!("{}&{}", aop, bop), cl.clone(), false));
            if thorough || a == b || bl.class == "null" {
                out.push((format!("{} OR {}", a, b), "or2", format!("{}|{}", aop, bop), cl, false));
            }
        }
    }
    // E: conjunct / disjunct on another column
    let one = if is_str { "'ab'" } else { "1" };
    let zero = if is_str { "'a'" } else { "0" };
    let mut catoms: Vec<(String, String)> = vec![];
    for op in OPS5 {
        catoms.push((format!("{} {} {}", c, op, one), op.to_string()));
        catoms.push((format!("{} {} NULL", c, op), format!("{}null", op)));
    }
    catoms.push((format!("{} IN ({}, {})", c, zero, one), "in".into()));
    catoms.push((format!("{} BETWEEN {} AND {}", c, zero, one), "between".into()));
    let o_one = if o == "s" { "'ab'" } else { "1" };
    let oatoms: Vec<(String, &str)> = vec![(format!("{} = {}", o, o_one), "o="), (format!("{} IS NULL", o), "o_isnull"), (format!("{} > {}", o, if o == "s" { "'a'" } else { "0" }), "o>"), ("id > 2".to_string(), "id>")];
    let n_o = if thorough { oatoms.len() } else { 2 };
    for (ca, cop) in &catoms {
        for (oa, oop) in oatoms.iter().take(n_o) {
            out.push((format!("{} AND {}", ca, oa), "and_other", format!("{}&{}", cop, oop), "small".into(), false));
            out.push((format!("{} AND {}", oa, ca), "and_other", format!("{}&{}", oop, cop), "small".into(), false));
            out.push((format!("{} OR {}", ca, oa), "or_other", format!("{}|{}", cop, oop), "small".into(), false));
            out.push((format!("{} OR {}", oa, ca), "or_other", format!("{}|{}", oop, cop), "small".into(), false));
        }
    }
    // G: assorted shapes that sit next to the extractable ones
    let two = if is_str { "'abc'" } else { "2" };
    let misc: Vec<(String, &str)> = vec![
        (format!("{c} > {zero} AND {c} < {two} AND {o} = {o_one}"), "and3"),
        (format!("({c} > {zero} AND {c} < {one}) OR {c} = {two}"), "and_or"),
        (format!("{c} > {zero} AND ({c} < {one} OR {c} = {two})"), "and_paren_or"),
        (format!("NOT ({c} > {one})"), "not"),
        (format!("{c} > {zero} AND NOT ({c} > {one})"), "and_not"),
        (format!("{c} IS NULL"), "is_null"),
        (format!("{c} IS NOT NULL"), "is_not_null"),
        (format!("{c} IS NULL OR {c} > {zero}"), "isnull_or"),
        (format!("{c} = {o}"), "col=col"),
        (format!("{c} > {o}"), "col>col"),
        (format!("{c} >= {zero} AND {c} <= {o}"), "range_col"),
        (format!("{c} BETWEEN {zero} AND {one} AND {c} > {zero}"), "between_and"),
        (format!("{c} IN ({zero}, {one}) AND {c} > {zero}"), "in_and"),
        (format!("{c} > {zero} AND {c} IN ({zero}, {one})"), "and_in"),
        (format!("{c} IN ({zero}, {one}) AND {c} IN ({one}, {two})"), "in_and_in"),
        (format!("{c} = {one} AND {c} = {two}"), "eq_and_eq"),
        (format!("{c} BETWEEN {zero} AND {two} AND {c} BETWEEN {one} AND {two}"), "between_and_between"),
        (format!("({c} > {zero} AND {c} < {two}) AND ({c} >= {one})"), "nested_and"),
        (format!("{c} > {zero} AND {c} > {one} AND {c} < {two}"), "and3_same"),
        (format!("{c} <= {two} AND {c} < {one} AND {c} > {zero}"), "and3_same"),
    ];
    for (p, name) in misc {
        out.push((p, "misc", name.to_string(), "small".into(), true));
    }
    if !is_str {
        for (p, name) in [(format!("{c} + 0 = 1"), "expr"), (format!("{c} = 1 + 0"), "expr_rhs"), (format!("{c} > 0 - 1"), "expr_rhs"), (format!("{c} IN (1, 1 + 1)"), "in_expr")] {
            out.push((p, "misc", name.to_string(), "small".into(), true));
        }
    }
    out
}

pub fn menu(c: &str, o: &str, thorough: bool) -> Vec<Q> {
    let mut qs: Vec<Q> = vec![];
    for (p, fam, ops, lit, wide) in predicates(c, o, thorough) {
        // materialised path (ORDER BY a column the index does not cover): the scan's "WHERE already applied" flag is honoured here
        qs.push(Q { sql: format!("SELECT * FROM t WHERE {} ORDER BY id", p), fam, ops: ops.clone(), lit: lit.clone(), ctx: "order_by_id", order: vec![(0, false)], limit: None, stmt: None, base: None, core: false });
        if wide {
            qs.push(Q { sql: format!("SELECT * FROM t WHERE {}", p), fam, ops: ops.clone(), lit: lit.clone(), ctx: "plain", order: vec![], limit: None, stmt: None, base: None, core: false });
            qs.push(Q { sql: format!("SELECT COUNT(*) FROM t WHERE {}", p), fam, ops: ops.clone(), lit: lit.clone(), ctx: "count", order: vec![], limit: None, stmt: None, base: None, core: false });
            if thorough {
                qs.push(Q { sql: format!("SELECT DISTINCT * FROM t WHERE {}", p), fam, ops: ops.clone(), lit: lit.clone(), ctx: "distinct", order: vec![], limit: None, stmt: None, base: None, core: false });
            }
        }
    }
    // H: the same atoms reached through other routes into the table scan: alias / qualified names, derived table,
    // IN-subquery, EXISTS, self-join, GROUP BY, set operation, scalar subquery
    {
        let is_str = c == "s";
        let (zero, one, two) = if is_str { ("'a'", "'ab'", "'abc'") } else { ("0", "1", "2") };
        let atoms: Vec<(String, &str)> = vec![
            (format!("{{}} <= {one}"), "<="),
            (format!("{{}} < {one}"), "<"),
            (format!("{{}} > {zero}"), ">"),
            (format!("{{}} = {one}"), "="),
            (format!("{{}} IN ({one}, {two}, NULL)"), "in_null"),
            (format!("{{}} IN ({zero}, {one})"), "in"),
            (format!("{{}} BETWEEN {zero} AND {one}"), "between"),
            (format!("{{}} >= {one} AND {{}} <= {two}"), "range"),
            (format!("{{}} IS NULL"), "is_null"),
        ];
        for (tpl, aname) in &atoms {
            let p = |col: &str| tpl.replace("{}", col);
            let plain_c = p(c);
            let forms: Vec<(String, &'static str, Vec<(usize, bool)>)> = vec![
                (format!("SELECT * FROM t AS x WHERE {} ORDER BY x.id", p(&format!("x.{}", c))), "alias", vec![(0, false)]),
                (format!("SELECT * FROM t WHERE {} ORDER BY t.id", p(&format!("t.{}", c))), "qualified", vec![(0, false)]),
                (format!("SELECT * FROM (SELECT * FROM t WHERE {}) q ORDER BY id", plain_c), "derived_table", vec![(0, false)]),
                (format!("SELECT * FROM t WHERE id IN (SELECT id FROM t WHERE {}) ORDER BY id", plain_c), "in_subquery", vec![(0, false)]),
                (format!("SELECT * FROM t a WHERE EXISTS (SELECT 1 FROM t b WHERE b.id = a.id AND {}) ORDER BY id", p(&format!("b.{}", c))), "exists", vec![(0, false)]),
                (format!("SELECT a.id, b.id FROM t a JOIN t b ON a.id = b.id WHERE {} ORDER BY a.id", p(&format!("a.{}", c))), "self_join", vec![(0, false)]),
                (format!("SELECT a.id, b.id FROM t a, t b WHERE a.{o} = b.{o} AND {}", p(&format!("b.{}", c))), "comma_join", vec![]),
                (format!("SELECT {c}, COUNT(*), MAX(id) FROM t WHERE {} GROUP BY {c}", plain_c), "group_by", vec![]),
                (format!("SELECT id FROM t WHERE {} UNION ALL SELECT id FROM t WHERE {o} IS NULL", plain_c), "union_all", vec![]),
                (format!("SELECT id, (SELECT COUNT(*) FROM t b WHERE {}) FROM t ORDER BY id", p(&format!("b.{}", c))), "scalar_subquery", vec![(0, false)]),
                (format!("SELECT COUNT(*), MIN({c}), MAX({c}) FROM t WHERE {}", plain_c), "aggregates", vec![]),
            ];
            for (sql, fname, order) in forms {
                qs.push(Q { sql, fam: "embedded", ops: fname.to_string(), lit: aname.to_string(), ctx: "embedded", order, limit: None, stmt: None, base: None, core: false });
            }
        }
    }
    // F: ORDER BY with / without WHERE and LIMIT
    let is_str = c == "s";
    let (zero, one, two) = if is_str { ("'a'", "'ab'", "'abc'") } else { ("0", "1", "2") };
    let mut orders: Vec<(Vec<(&str, bool)>, &str)> = vec![
        (vec![(c, false)], "c"),
        (vec![(c, true)], "cD"),
        (vec![(c, false), (o, false)], "c,o"),
        (vec![(c, true), (o, false)], "cD,o"),
        (vec![(c, false), (o, true)], "c,oD"),
        (vec![(c, true), (o, true)], "cD,oD"),
        (vec![(o, false)], "o"),
        (vec![(o, false), (c, false)], "o,c"),
        (vec![(c, false), ("id", true)], "c,idD"),
        (vec![("id", true)], "idD"),
    ];
    let o_one = if o == "s" { "'ab'" } else { "1" };
    let mut wheres: Vec<(String, &str)> = vec![
        (String::new(), "none"),
        (format!(" WHERE {c} > {zero}"), ">"),
        (format!(" WHERE {c} >= {one} AND {c} <= {two}"), "range"),
        (format!(" WHERE {c} IN ({two}, {zero}, {one})"), "in"),
        (format!(" WHERE {o} = {o_one}"), "other="),
        (format!(" WHERE {c} IS NOT NULL"), "is_not_null"),
        (format!(" WHERE {c} < {two}"), "<"),
        (format!(" WHERE {c} = {one}"), "="),
    ];
    let mut limits: Vec<(Option<(usize, usize)>, &str)> = vec![(None, "none"), (Some((2, 0)), "limit2"), (Some((1, 1)), "limit1_offset1"), (Some((0, 0)), "limit0"), (Some((10, 2)), "limit10_offset2")];
    if !thorough {
        orders.truncate(7);
        wheres.truncate(5);
        limits.truncate(4);
    }
    for (ord, oname) in &orders {
        let ob = ord.iter().map(|(col, d)| format!("{}{}", col, if *d { " DESC" } else { "" })).collect::<Vec<_>>().join(", ");
        let keys: Vec<(usize, bool)> = ord.iter().map(|(col, d)| (col_pos(col), *d)).collect();
        for (w, wname) in &wheres {
            for (lim, lname) in &limits {
                let base = format!("SELECT * FROM t{} ORDER BY {}", w, ob);
                let (sql, limit) = match lim {
                    None => (base.clone(), None),
                    Some((n, 0)) => (format!("{} LIMIT {}", base, n), Some((*n, 0usize, base.clone()))),
                    Some((n, m)) => (format!("{} LIMIT {} OFFSET {}", base, n, m), Some((*n, *m, base.clone()))),
                };
                qs.push(Q { sql, fam: "order_by", ops: oname.to_string(), lit: wname.to_string(), ctx: lname, order: keys.clone(), limit, stmt: None, base: None, core: false });
            }
        }
    }
    finish_menu(qs)
}

fn finish_menu(mut qs: Vec<Q>) -> Vec<Q> {
    let pos: HashMap<String, usize> = qs.iter().enumerate().map(|(i, q)| (q.sql.clone(), i)).collect();
    for q in qs.iter_mut() {
        if let Ok(vibesql_ast::Statement::Select(st)) = exec::parse(&q.sql) {
            q.stmt = Some(*st);
        }
        if let Some((_, _, b)) = &q.limit {
            q.base = pos.get(b).copied();
        }
        q.core = match (q.fam, q.ctx) {
            ("atom", "order_by_id") => !q.ops.starts_with("rev") && !matches!(q.lit.as_str(), "null" | "frac" | "len0"),
            ("atom", "count") => matches!(q.ops.as_str(), "=" | "<" | ">") && matches!(q.lit.as_str(), "int" | "len2"),
            ("inlist", "order_by_id") => q.ops == "in",
            ("between", "order_by_id") => q.ops == "between",
            ("misc", "order_by_id") => true,
            ("order_by", "none") => true,
            ("order_by", "limit2") => q.lit == "none" || q.lit == ">",
            _ => false,
        };
    }
    qs
}

fn run_q(db: &Database, q: &Q) -> Out {
    match &q.stmt {
        Some(st) => exec::select_stmt(db, st),
        None => exec::select(db, &q.sql),
    }
}

// ------------------------------------------------------------------------------------------------
// the oracle for one query on one (plain, indexed) pair

#[derive(Default)]
struct Tally {
    evaluated: u64,
    both_err: u64,
    plain_err_only: u64,
    nonempty: u64,
    outcomes: HashSet<u64>,
}

/// None = the query agrees; Some(what) = index dependence observed.
fn judge(q_sql: &str, order: &[(usize, bool)], limit: &Option<(usize, usize, String)>, plain: &Database, idx: &Database) -> Option<String> {
    let rp = exec::select(plain, q_sql);
    let ri = exec::select(idx, q_sql);
    let mut t = Tally::default();
    judge_out(order, limit.is_some(), &rp, &ri, &|| limit.as_ref().map(|(_, _, b)| exec::select(plain, b)), &mut t)
}

fn judge_out(order: &[(usize, bool)], limited: bool, rp: &Out, ri: &Out, plain_unlimited: &dyn Fn() -> Option<Out>, t: &mut Tally) -> Option<String> {
    t.evaluated += 1;
    let (rows_p, rows_i) = match (rp, ri) {
        (Out::Rows(a), Out::Rows(b)) => (a, b),
        (Out::Rows(_), other) => return Some(format!("without the index the query returns {} rows, with the index it fails: {}", rp.rows().map(|r| r.len()).unwrap_or(0), other.brief())),
        (_, Out::Rows(_)) => {
            t.plain_err_only += 1;
            return None;
        }
        _ => {
            t.both_err += 1;
            return None;
        }
    };
    let desc: Vec<bool> = order.iter().map(|(_, d)| *d).collect();
    let keys = |rows: &[Vec<V>]| -> Vec<Vec<V>> { rows.iter().map(|r| order.iter().map(|(p, _)| r[*p].clone()).collect()).collect() };
    let ii: Vec<Vec<V>> = rows_i.iter().map(|r| tw::row_of(r)).collect();
    if !order.is_empty() {
        let ki = keys(&ii);
        if let Some(pos) = tw::first_unsorted(&ki, &desc) {
            return Some(format!("with the index the result is not sorted by the ORDER BY keys (NULLs last) at row {}: {}  [without the index: {}]", pos, tw::fmt_rows(&ii), rp.brief()));
        }
    }
    if rows_p == rows_i {
        // identical sequences: equal bags, equal key sequences, and (limited) rows of the plain twin's own result
        return None;
    }
    let pp: Vec<Vec<V>> = rows_p.iter().map(|r| tw::row_of(r)).collect();
    if !limited {
        if tw::bag_of(&pp) != tw::bag_of(&ii) {
            return Some(format!("different rows: without the index {} , with the index {}", tw::fmt_rows(&pp), tw::fmt_rows(&ii)));
        }
    } else {
        let (kp, ki) = (keys(&pp), keys(&ii));
        if kp.len() != ki.len() || !kp.iter().zip(&ki).all(|(a, b)| tw::keys_equal(a, b)) {
            return Some(format!("different ORDER BY key sequence under LIMIT/OFFSET: without the index {} , with the index {}", tw::fmt_rows(&pp), tw::fmt_rows(&ii)));
        }
        if let Some(full) = plain_unlimited().as_ref().and_then(tw::rows_v) {
            if !tw::sub_bag(&tw::bag_of(&ii), &tw::bag_of(&full)) {
                return Some(format!("rows under LIMIT/OFFSET with the index {} are not all rows of the unlimited result without the index {}", tw::fmt_rows(&ii), tw::fmt_rows(&full)));
            }
        }
    }
    None
}

/// non-vacuity bookkeeping for the index-free result of one query
fn tally_plain(rp: &Out, t: &mut Tally) {
    if let Out::Rows(rows) = rp {
        if !rows.is_empty() {
            t.nonempty += 1;
        }
        t.outcomes.insert(util::hash64(format!("{:?}", vcore::val::bag(rows)).as_bytes()));
    }
}

// ------------------------------------------------------------------------------------------------
// construction of twins, cases, replay

fn index_order(db: &Database) -> Vec<String> {
    db.list_indexes_for_table("T")
}

/// plain root with the prelude; for two-index shapes a root whose HashMap order yields `shape.order`
fn build_root(shape: &Shape) -> Result<(Database, Database), String> {
    for _ in 0..2000 {
        let plain = exec::fresh(&[CREATE, BASE_ROWS]);
        let mut idx = plain.clone();
        for d in shape.ddl {
            let o = exec::exec(&mut idx, d);
            if !o.is_ok() {
                return Err(format!("index DDL `{}` rejected on the prelude rows: {}", d, o.brief()));
            }
        }
        match shape.order {
            None => return Ok((plain, idx)),
            Some(want) => {
                let got = index_order(&idx);
                if got.iter().map(|s| s.as_str()).collect::<Vec<_>>() == want {
                    return Ok((plain, idx));
                }
            }
        }
    }
    Err(format!("could not obtain index order {:?} in 2000 attempts", shape.order))
}

fn make_fresh(plain: &Database, shape: &Shape) -> Option<Database> {
    let mut f = plain.clone();
    for d in shape.ddl {
        if !exec::exec(&mut f, d).is_ok() {
            return None; // e.g. UNIQUE index over rows with duplicates: no such twin exists
        }
    }
    Some(f)
}

fn case_json(shape: &Shape, placement: &str, hist: &[String], q: &Q) -> Value {
    json!({
        "prelude": [CREATE, BASE_ROWS],
        "shape": shape.key,
        "index_ddl": shape.ddl,
        "placement": placement,
        "steps": hist,
        "query": q.sql,
        "order": q.order.iter().map(|(p, d)| json!([p, d])).collect::<Vec<_>>(),
        "limit": q.limit.as_ref().map(|(n, m, b)| json!([n, m, b])),
        "note": "placement=fresh: run prelude+steps, then index_ddl; placement=maintained: prelude, index_ddl, then steps. Compare `query` with the same history without index_ddl."
    })
}

/// Re-execute a recorded case from scratch. Ok(None) = agrees, Ok(Some(what)) = fails.
fn eval_case(case: &Value, verbose: bool) -> Result<Option<String>, String> {
    let shape = shape_by_key(case["shape"].as_str().unwrap_or("")).ok_or("unknown shape")?;
    let steps: Vec<String> = case["steps"].as_array().map(|a| a.iter().filter_map(|x| x.as_str().map(|s| s.to_string())).collect()).unwrap_or_default();
    let (mut plain, mut maint) = build_root(&shape)?;
    let mut alive = true;
    for s in &steps {
        let a = tw::step(&mut plain, s);
        let b = if alive { tw::step(&mut maint, s) } else { a.clone() };
        if verbose {
            println!("{}\n   => plain: {}   indexed: {}", s, a.brief(), b.brief());
        }
        if a.class() != b.class() {
            alive = false;
        }
    }
    let idx = match case["placement"].as_str() {
        Some("fresh") => make_fresh(&plain, &shape).ok_or("index DDL rejected on the final rows")?,
        _ => {
            if !alive {
                return Err("maintained twin diverged (constraint)".into());
            }
            maint
        }
    };
    let order: Vec<(usize, bool)> = case["order"].as_array().map(|a| a.iter().map(|x| (x[0].as_u64().unwrap_or(0) as usize, x[1].as_bool().unwrap_or(false))).collect()).unwrap_or_default();
    let limit = case["limit"].as_array().map(|a| (a[0].as_u64().unwrap_or(0) as usize, a[1].as_u64().unwrap_or(0) as usize, a[2].as_str().unwrap_or("").to_string()));
    let sql = case["query"].as_str().unwrap_or("");
    if verbose {
        println!("-- table: {}", exec::select(&plain, "SELECT * FROM t").brief());
        println!("-- index: {}", shape.ddl.join("; "));
        println!("{}\n   => without index: {}\n   => with index:    {}", sql, exec::select(&plain, sql).brief(), exec::select(&idx, sql).brief());
    }
    Ok(judge(sql, &order, &limit, &plain, &idx))
}

pub fn replay(case: &Value) -> i32 {
    match eval_case(case, true) {
        Ok(Some(w)) => {
            println!("VERDICT: violated — {}", w);
            1
        }
        Ok(None) => {
            println!("VERDICT: holds on this tree");
            0
        }
        Err(e) => {
            eprintln!("MACHINERY-ERROR {}", e);
            2
        }
    }
}

// ------------------------------------------------------------------------------------------------
// exploration

struct Node {
    /// one index-free database per shape (equal values; only the HashMap seeds differ, which fixes
    /// the listing order of the indexes a twin derived from it will have)
    plains: Vec<Database>,
    maints: Vec<Option<Database>>,
    hist: Vec<String>,
    fp_plain: u128,
    fp_maints: Vec<u128>,
}

struct Fail {
    sig: Vec<(&'static str, String)>,
    what: String,
    case: Value,
}

#[derive(Default)]
struct ItemResult {
    fails: Vec<Fail>,
    tally: Tally,
    fresh_cases: u64,
    maint_cases: u64,
    no_fresh_twin: u64,
    maint_done: Vec<(usize, u128)>,
}

fn beyond_2p53(sql: &str, hist: &[String]) -> &'static str {
    let lit = sql.contains("90071992547409") || sql.contains("9223372036854775807");
    let data = hist.iter().any(|h| h.contains("90071992547409"));
    match (data, lit) {
        (false, false) => "no",
        (false, true) => "literal",
        (true, false) => "data",
        (true, true) => "data+literal",
    }
}

fn fp_node(n: &mut Node) {
    // whole-database fingerprints; statistics carry a timestamp, so states with statistics are keyed by their history
    let has_stats = n.plains[0].get_table("T").map(|t| t.get_statistics().is_some()).unwrap_or(false);
    if has_stats {
        let h = util::hash128(format!("H{}", n.hist.join(";")).as_bytes());
        n.fp_plain = h;
        n.fp_maints = n.maints.iter().map(|m| if m.is_some() { h } else { 0 }).collect();
    } else {
        n.fp_plain = vcore::fp::fingerprint(&n.plains[0]);
        n.fp_maints = n.maints.iter().map(|m| m.as_ref().map(vcore::fp::fingerprint).unwrap_or(0)).collect();
    }
}

fn node_key(n: &Node) -> u128 {
    util::hash128(format!("{:x}|{:?}", n.fp_plain, n.fp_maints).as_bytes())
}

/// One work item: a state × a group of shapes that share a query menu.
fn check_group(n: &Node, shapes: &[Shape], members: &[usize], menu: &[Q], core_only: bool, do_fresh: bool, maint_seen: &HashSet<(usize, u128)>, range: (usize, usize), expired: &dyn Fn() -> bool) -> Option<ItemResult> {
    let mut r = ItemResult::default();
    // twins to examine
    let mut todo: Vec<(usize, Database, &'static str)> = vec![];
    for &k in members {
        let shape = &shapes[k];
        let names: Vec<String> = shape.names.iter().map(|s| s.to_string()).collect();
        let fresh = make_fresh(&n.plains[k], shape);
        if fresh.is_none() && range.0 == 0 {
            r.no_fresh_twin += 1;
        }
        if let Some(m) = &n.maints[k] {
            let differs = match &fresh {
                Some(f) => tw::index_image(m, &names) != tw::index_image(f, &names),
                None => true,
            };
            if !n.hist.is_empty() && differs && !maint_seen.contains(&(k, n.fp_maints[k])) {
                r.maint_done.push((k, n.fp_maints[k]));
                todo.push((k, m.clone(), "maintained"));
            }
        }
        if do_fresh {
            if let Some(f) = fresh {
                todo.push((k, f, "fresh"));
            }
        }
    }
    if todo.is_empty() {
        return Some(r);
    }
    let plain = &n.plains[members[0]];
    // the unlimited variants of core LIMIT queries are core themselves, so `base` lookups stay valid
    let skip = |q: &Q| core_only && !q.core;
    // this item covers the queries [lo, hi) of the menu (the menu is cut into chunks so that a single state still
    // fills all cores)
    let (lo, hi) = range;
    let mut plain_out: Vec<Out> = Vec::with_capacity(hi - lo);
    for qi in lo..hi {
        let q = &menu[qi];
        if qi % 64 == 0 && expired() {
            return None; // time cap: this item is not counted as examined
        }
        plain_out.push(if skip(q) { Out::Done } else { run_q(plain, q) });
    }
    for qi in lo..hi {
        if !skip(&menu[qi]) {
            tally_plain(&plain_out[qi - lo], &mut r.tally);
        }
    }
    for (k, idx, placement) in &todo {
        let shape = &shapes[*k];
        if lo == 0 {
            if *placement == "fresh" {
                r.fresh_cases += 1;
            } else {
                r.maint_cases += 1;
            }
        }
        for qi in lo..hi {
            let q = &menu[qi];
            if skip(q) {
                continue;
            }
            if qi % 64 == 0 && expired() {
                return None;
            }
            let ri = run_q(idx, q);
            let verdict = judge_out(&q.order, q.limit.is_some(), &plain_out[qi - lo], &ri, &|| q.base.map(|b| if b >= lo && b < hi { plain_out[b - lo].clone() } else { run_q(plain, &menu[b]) }), &mut r.tally);
            if let Some(what) = verdict {
                let index = if *placement == "fresh" { "fresh".to_string() } else { format!("maintained:{}", hist_kinds(&n.hist)) };
                r.fails.push(Fail {
                    sig: vec![
                        ("shape", shape.key.to_string()),
                        ("family", q.fam.to_string()),
                        ("ops", q.ops.clone()),
                        ("lit", q.lit.clone()),
                        ("ctx", q.ctx.to_string()),
                        ("index", index),
                        ("beyond_2p53", beyond_2p53(&q.sql, &n.hist).to_string()),
                    ],
                    what: format!("`{}` [index {}; {}; history: {}] {}", q.sql, shape.ddl.join("; "), placement, if n.hist.is_empty() { "-".to_string() } else { n.hist.join("; ") }, what),
                    case: case_json(shape, placement, &n.hist, q),
                });
            }
        }
    }
    Some(r)
}

pub fn run(tier: &str) -> i32 {
    let mut rep = Report::new("C02", tier, "model_checking");
    vibesql_types::verif::reset();
    let thorough = tier == "thorough";
    // quick: the first five shapes and the UNIQUE one (a unique index keeps one entry per key — except for
    // NULL, which many rows may share)
    let shapes: Vec<Shape> = if thorough { all_shapes() } else { all_shapes().into_iter().enumerate().filter(|(i, s)| *i < 5 || s.key == "uniq(v)").map(|(_, s)| s).collect() };
    let depth = if thorough { 3 } else { 2 };
    let alpha: Vec<String> = alphabet(thorough).into_iter().map(|s| s.to_string()).collect();
    // groups of shapes that share a menu
    let mut groups: Vec<(Vec<usize>, Vec<Q>)> = vec![];
    for (i, s) in shapes.iter().enumerate() {
        match groups.iter_mut().find(|(m, _)| shapes[m[0]].lead == s.lead && shapes[m[0]].other == s.other) {
            Some((m, _)) => m.push(i),
            None => groups.push((vec![i], menu(s.lead, s.other, thorough))),
        }
    }
    let max_secs: f64 = std::env::var("VERIF_C02_SECS").ok().and_then(|s| s.parse().ok()).unwrap_or(if thorough { 800.0 } else { 17.0 });

    let mut root = Node { plains: vec![], maints: vec![], hist: vec![], fp_plain: 0, fp_maints: vec![] };
    for s in &shapes {
        match build_root(s) {
            Ok((plain, idx)) => {
                root.plains.push(plain);
                root.maints.push(Some(idx));
            }
            Err(e) => {
                rep.machinery_error(format!("shape {}: {}", s.key, e));
                return rep.finish();
            }
        }
    }
    fp_node(&mut root);
    let mut seen: HashSet<u128> = HashSet::from([node_key(&root)]);
    let mut frontier = vec![root];
    let mut fresh_seen: HashSet<(u128, usize)> = HashSet::new();
    let mut maint_seen: HashSet<(usize, u128)> = HashSet::new();
    let (mut states, mut transitions, mut ok_tr, mut err_tr, mut pruned_unique) = (0u64, 0u64, 0u64, 0u64, 0u64);
    let mut total = Tally::default();
    let (mut fresh_cases, mut maint_cases, mut no_fresh) = (0u64, 0u64, 0u64);
    let mut depth_done: i64 = -1;
    let mut capped = false;
    let mut confirmed_sigs: HashSet<String> = HashSet::new();
    let mut samples: Vec<Value> = vec![];
    let mut per_depth: Vec<u64> = vec![];
    let mut states_with_stats = 0u64;

    for d in 0..=depth {
        if rep.start.elapsed().as_secs_f64() > max_secs {
            capped = true;
            break;
        }
        per_depth.push(frontier.len() as u64);
        states += frontier.len() as u64;
        states_with_stats += frontier.iter().filter(|n| n.plains[0].get_table("T").map(|t| t.get_statistics().is_some()).unwrap_or(false)).count() as u64;
        // work items of this level: (node, group, fresh twin still to be examined for this plain state?)
        const CHUNK: usize = 160;
        let mut items: Vec<(usize, usize, bool, usize, usize)> = vec![];
        for (ni, n) in frontier.iter().enumerate() {
            for gi in 0..groups.len() {
                let do_fresh = fresh_seen.insert((n.fp_plain, gi));
                let len = groups[gi].1.len();
                let mut lo = 0;
                while lo < len {
                    items.push((ni, gi, do_fresh, lo, (lo + CHUNK).min(len)));
                    lo += CHUNK;
                }
            }
        }
        let deadline_hit = std::sync::atomic::AtomicBool::new(false);
        let results: Vec<Option<ItemResult>> = util::par_map(&items, |_, (ni, gi, do_fresh, lo, hi)| {
            if rep.start.elapsed().as_secs_f64() > max_secs {
                deadline_hit.store(true, AO::Relaxed);
                return None;
            }
            let r = check_group(&frontier[*ni], &shapes, &groups[*gi].0, &groups[*gi].1, d == depth, *do_fresh, &maint_seen, (*lo, *hi), &|| rep.start.elapsed().as_secs_f64() > max_secs);
            if r.is_none() {
                deadline_hit.store(true, AO::Relaxed);
            }
            r
        });
        for ((ni, gi, _, _, _), r) in items.iter().zip(results) {
            let Some(r) = r else { continue };
            let n = &frontier[*ni];
            total.evaluated += r.tally.evaluated;
            total.both_err += r.tally.both_err;
            total.plain_err_only += r.tally.plain_err_only;
            total.nonempty += r.tally.nonempty;
            total.outcomes.extend(r.tally.outcomes.iter().copied());
            fresh_cases += r.fresh_cases;
            maint_cases += r.maint_cases;
            no_fresh += r.no_fresh_twin;
            maint_seen.extend(r.maint_done.iter().copied());
            if r.fresh_cases + r.maint_cases > 0 && samples.len() < 8 && (d == depth || samples.len() < 3) {
                samples.push(json!({"shapes": groups[*gi].0.iter().map(|k| shapes[*k].key).collect::<Vec<_>>(), "history": n.hist, "queries": groups[*gi].1.len(), "twins_examined": r.fresh_cases + r.maint_cases, "failing": r.fails.len()}));
            }
            for f in r.fails {
                let key = f.sig.iter().map(|(k, v)| format!("{}={}", k, v)).collect::<Vec<_>>().join(";");
                if confirmed_sigs.insert(key) {
                    // re-execute the case from scratch before reporting it
                    if let Err(e) = tw::confirm(&|| eval_case(&f.case, false)) {
                        rep.machinery_error(format!("case did not reproduce from scratch: {} :: {}", e, f.what));
                        continue;
                    }
                }
                rep.violation(&f.sig, f.what, f.case);
            }
        }
        if deadline_hit.load(AO::Relaxed) {
            capped = true;
            break;
        }
        depth_done = d as i64;
        if d == depth {
            break;
        }
        // expand
        let children: Vec<Vec<(Node, bool, u64)>> = util::par_map(&frontier, |_, n| {
            let mut out = vec![];
            for op in &alpha {
                let mut plains = vec![];
                let mut maints = vec![];
                let mut first: Option<Out> = None;
                let mut pruned = 0u64;
                for k in 0..shapes.len() {
                    let mut p = n.plains[k].clone();
                    let a = tw::step(&mut p, op);
                    let m = match &n.maints[k] {
                        Some(m) => {
                            let mut m2 = m.clone();
                            let b = tw::step(&mut m2, op);
                            if a.class() == b.class() && a.count() == b.count() {
                                Some(m2)
                            } else if shapes[k].unique {
                                pruned += 1;
                                None // the UNIQUE index legitimately rejected what the plain table accepts
                            } else {
                                Some(m2) // the queries of the next level will show the difference
                            }
                        }
                        None => None,
                    };
                    if first.is_none() {
                        first = Some(a);
                    }
                    plains.push(p);
                    maints.push(m);
                }
                let mut hist = n.hist.clone();
                hist.push(op.clone());
                let mut c = Node { plains, maints, hist, fp_plain: 0, fp_maints: vec![] };
                fp_node(&mut c);
                out.push((c, first.map(|o| o.is_ok()).unwrap_or(false), pruned));
            }
            out
        });
        let mut next = vec![];
        for (child, ok, pruned) in children.into_iter().flatten() {
            transitions += 1;
            if ok {
                ok_tr += 1;
            } else {
                err_tr += 1;
            }
            pruned_unique += pruned;
            if seen.insert(node_key(&child)) {
                next.push(child);
            }
        }
        frontier = next;
    }

    let (reach, vac) = vcore::report::reach_json(&["index_scan", "index_where_skip"]);
    rep.set("states", json!(states));
    rep.set("transitions", json!(transitions));
    rep.set("traces_validated_against_impl", json!(transitions));
    rep.set("ok_transitions", json!(ok_tr));
    rep.set("err_transitions", json!(err_tr));
    rep.set("history_depth_bound", json!(depth));
    rep.set("history_depth_completed", json!(depth_done));
    rep.set("states_per_depth", json!(per_depth));
    rep.set("states_with_table_statistics_cost_based_selection", json!(states_with_stats));
    rep.set("exhaustive", json!(!capped && depth_done == depth as i64));
    rep.set("capped_by_time", json!(capped));
    rep.set("index_shapes", json!(shapes.iter().map(|s| s.key).collect::<Vec<_>>()));
    rep.set("history_alphabet", json!(alpha));
    rep.set("core_queries_per_menu", json!(groups.iter().map(|(m, q)| (format!("lead={} other={}", shapes[m[0]].lead, shapes[m[0]].other), q.iter().filter(|x| x.core).count())).collect::<BTreeMap<_, _>>()));
    rep.set("menu_by_depth", json!(format!("full menu at history depth < {}, core menu at depth {}", depth, depth)));
    rep.set("queries_per_menu", json!(groups.iter().map(|(m, q)| (format!("lead={} other={}", shapes[m[0]].lead, shapes[m[0]].other), q.len())).collect::<BTreeMap<_, _>>()));
    rep.set("evaluations", json!(total.evaluated));
    rep.set("query_pairs_with_rows", json!(total.nonempty));
    rep.set("query_pairs_both_rejected", json!(total.both_err));
    rep.set("query_pairs_only_plain_rejected", json!(total.plain_err_only));
    rep.set("distinct_nontrivial", json!(total.outcomes.len()));
    rep.set("fresh_index_twins_examined", json!(fresh_cases));
    rep.set("maintained_index_twins_examined", json!(maint_cases));
    rep.set("states_without_fresh_twin", json!(no_fresh));
    rep.set("unique_shape_branches_pruned", json!(pruned_unique));
    rep.set("reach", reach);
    rep.set("vacuous_mechanisms", vac);
    rep.set("samples", json!(samples));
    rep.set("rule", json!("BFS over all DML histories up to the depth bound (states merged on the whole-database fingerprints of the index-free database and of every maintained-index twin); at every new table state the whole query menu of every index shape is executed on the index-free database and on a twin whose index is built from the final rows, and additionally on the twin whose index was maintained through the history whenever its index contents differ from the freshly built one; oracle: bag equality, sortedness of ORDER BY output under NULLs-last (own comparator), key-sequence equality and sub-bag under LIMIT/OFFSET"));
    rep.assume("literals are type-compatible with the indexed column; a query both twins reject is not a case; a query only the index-free twin rejects is not a violation");
    println!(
        "C02 {}: shapes={} menus={:?} depth={}/{} states={} transitions={} (ok {} / err {}) query-pairs={} with-rows={} distinct-results={} fresh-twins={} maintained-twins={} capped={}",
        tier,
        shapes.len(),
        groups.iter().map(|(_, q)| q.len()).collect::<Vec<_>>(),
        depth_done,
        depth,
        states,
        transitions,
        ok_tr,
        err_tr,
        total.evaluated,
        total.nonempty,
        total.outcomes.len(),
        fresh_cases,
        maint_cases,
        capped
    );
    rep.finish()
}
