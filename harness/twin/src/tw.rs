//! Small shared helpers of the `twin` package (C02, C08, C09): an own value type with the
//! property's ordering (numbers by value, NULLs last), sortedness / slice / bag helpers,
//! statement execution incl. the one statement the SQL lexer does not reach (ANALYZE).
//! Deliberately boring; nothing here calls the engine's comparison or sort code.

use std::cmp::Ordering;
use std::collections::BTreeMap;

use vcore::exec::{self, Out};
use vibesql_storage::Database;
use vibesql_types::SqlValue;

/// A result value as the properties see it: NULL, a number (by value), a string.
#[derive(Debug, Clone, PartialEq)]
pub enum V {
    Null,
    /// exact integer value when the engine value was integral, plus the f64 image
    Num(Option<i128>, f64),
    Str(String),
    Other(String),
}

pub fn v_of(v: &SqlValue) -> V {
    match v {
        SqlValue::Null => V::Null,
        SqlValue::Integer(i) | SqlValue::Bigint(i) => V::Num(Some(*i as i128), *i as f64),
        SqlValue::Smallint(i) => V::Num(Some(*i as i128), *i as f64),
        SqlValue::Unsigned(u) => V::Num(Some(*u as i128), *u as f64),
        SqlValue::Numeric(f) | SqlValue::Double(f) => num_f(*f),
        SqlValue::Float(f) | SqlValue::Real(f) => num_f(*f as f64),
        SqlValue::Boolean(b) => V::Num(Some(*b as i128), *b as i64 as f64),
        SqlValue::Character(s) | SqlValue::Varchar(s) => V::Str(s.clone()),
        other => V::Other(format!("{:?}", other)),
    }
}

fn num_f(f: f64) -> V {
    if f.is_finite() && f == f.trunc() && f.abs() < 1.0e18 {
        V::Num(Some(f as i128), f)
    } else {
        V::Num(None, f)
    }
}

pub fn row_of(r: &[SqlValue]) -> Vec<V> {
    r.iter().map(v_of).collect()
}

/// Comparison of two non-NULL values of one kind; numbers by value. `None` = not comparable
/// (different kinds, NaN): the oracles then make no demand on their relative order.
pub fn cmp_vals(a: &V, b: &V) -> Option<Ordering> {
    match (a, b) {
        (V::Num(Some(x), _), V::Num(Some(y), _)) => Some(x.cmp(y)),
        (V::Num(_, x), V::Num(_, y)) => x.partial_cmp(y),
        (V::Str(x), V::Str(y)) => Some(x.as_bytes().cmp(y.as_bytes())),
        _ => None,
    }
}

/// The property's ORDER BY comparison for one key: NULLs last in both directions.
pub fn cmp_key(a: &V, b: &V, desc: bool) -> Option<Ordering> {
    match (a, b) {
        (V::Null, V::Null) => Some(Ordering::Equal),
        (V::Null, _) => Some(Ordering::Greater),
        (_, V::Null) => Some(Ordering::Less),
        _ => cmp_vals(a, b).map(|o| if desc { o.reverse() } else { o }),
    }
}

pub fn cmp_keys(a: &[V], b: &[V], desc: &[bool]) -> Option<Ordering> {
    for i in 0..a.len() {
        match cmp_key(&a[i], &b[i], desc[i])? {
            Ordering::Equal => {}
            o => return Some(o),
        }
    }
    Some(Ordering::Equal)
}

/// First position at which the key sequence decreases, if any.
pub fn first_unsorted(keys: &[Vec<V>], desc: &[bool]) -> Option<usize> {
    for i in 1..keys.len() {
        if cmp_keys(&keys[i - 1], &keys[i], desc) == Some(Ordering::Greater) {
            return Some(i);
        }
    }
    None
}

/// Reference sort of key vectors (insertion sort, stable): independent of the engine and of std's sort
/// comparator contract for incomparable pairs.
pub fn ref_sort(mut keys: Vec<Vec<V>>, desc: &[bool]) -> Vec<Vec<V>> {
    for i in 1..keys.len() {
        let mut j = i;
        while j > 0 && cmp_keys(&keys[j - 1], &keys[j], desc) == Some(Ordering::Greater) {
            keys.swap(j - 1, j);
            j -= 1;
        }
    }
    keys
}

/// Equality of two key vectors under the ordering (ties compare equal: 1 and 1.0).
pub fn keys_equal(a: &[V], b: &[V]) -> bool {
    a.len() == b.len() && a.iter().zip(b).all(|(x, y)| cmp_key(x, y, false) == Some(Ordering::Equal))
}

/// By-value canonical text of a row (numbers by value), usable as a bag key.
pub fn row_key(r: &[V]) -> String {
    r.iter()
        .map(|v| match v {
            V::Null => "NULL".to_string(),
            V::Num(Some(i), _) => i.to_string(),
            V::Num(None, f) => format!("{:e}", f),
            V::Str(s) => format!("'{}'", s),
            V::Other(s) => format!("?{}", s),
        })
        .collect::<Vec<_>>()
        .join(",")
}

pub fn bag_of(rows: &[Vec<V>]) -> BTreeMap<String, usize> {
    let mut m = BTreeMap::new();
    for r in rows {
        *m.entry(row_key(r)).or_insert(0) += 1;
    }
    m
}

/// a ⊆ b as bags
pub fn sub_bag(a: &BTreeMap<String, usize>, b: &BTreeMap<String, usize>) -> bool {
    a.iter().all(|(k, n)| b.get(k).copied().unwrap_or(0) >= *n)
}

pub fn bag_minus(a: &BTreeMap<String, usize>, b: &BTreeMap<String, usize>) -> BTreeMap<String, usize> {
    let mut m = BTreeMap::new();
    for (k, n) in a {
        let r = n.saturating_sub(b.get(k).copied().unwrap_or(0));
        if r > 0 {
            m.insert(k.clone(), r);
        }
    }
    m
}

pub fn bag_plus(a: &BTreeMap<String, usize>, b: &BTreeMap<String, usize>) -> BTreeMap<String, usize> {
    let mut m = a.clone();
    for (k, n) in b {
        *m.entry(k.clone()).or_insert(0) += n;
    }
    m
}

pub fn fmt_rows(rows: &[Vec<V>]) -> String {
    let v: Vec<String> = rows.iter().take(14).map(|r| format!("({})", row_key(r))).collect();
    let more = if rows.len() > 14 { format!(",…+{}", rows.len() - 14) } else { String::new() };
    format!("[{}{}]", v.join(","), more)
}

pub fn fmt_bag(b: &BTreeMap<String, usize>) -> String {
    let v: Vec<String> = b.iter().take(14).map(|(k, n)| if *n == 1 { format!("({})", k) } else { format!("({})x{}", k, n) }).collect();
    format!("{{{}}}", v.join(","))
}

pub fn rows_v(o: &Out) -> Option<Vec<Vec<V>>> {
    o.rows().map(|rs| rs.iter().map(|r| row_of(r)).collect())
}

/// Execute one step of a history. `#ANALYZE` computes statistics for table T through the AST
/// (the lexer does not produce the ANALYZE keyword, so the text form cannot be parsed).
pub fn step(db: &mut Database, s: &str) -> Out {
    if s == "#ANALYZE" {
        let st = vibesql_ast::Statement::Analyze(vibesql_ast::AnalyzeStmt { table_name: Some("T".into()), columns: None });
        return exec::exec_stmt(db, &st);
    }
    exec::exec(db, s)
}

pub fn class3(o: &Out) -> &'static str {
    o.class()
}

/// `{:?}` of every user index (metadata + in-memory map) on the database, sorted by name.
pub fn index_image(db: &Database, names: &[String]) -> String {
    let mut out = String::new();
    for n in names {
        out.push_str(n);
        out.push('=');
        match db.get_index_data(n) {
            Some(d) => out.push_str(&format!("{:?}", d)),
            None => out.push_str("<none>"),
        }
        out.push(';');
    }
    out
}

/// Rows of table T in storage order plus whether statistics are present (they steer index selection).
pub fn table_image(db: &Database, table: &str) -> String {
    match db.get_table(table) {
        Some(t) => format!("{:?}|stats={:?}", t.scan().iter().map(|r| &r.values).collect::<Vec<_>>(), t.get_statistics().map(|s| (s.row_count, s.needs_refresh()))),
        None => "<no table>".into(),
    }
}

/// Re-execute a violating case from scratch before it is reported (DESIGN R3). `eval` rebuilds the
/// database(s) and returns Ok(Some(what)) when the case fails again. The engine hashes with
/// per-instance random seeds (GROUP BY output order, index listing order), so a genuine failure can
/// depend on the seed of the rebuilt database: the case is re-executed up to 12 times and counts as
/// confirmed when it fails at least twice. Ok(times_failed) / Err(description) for a machinery error.
pub fn confirm(eval: &dyn Fn() -> Result<Option<String>, String>) -> Result<usize, String> {
    let mut fails = 0usize;
    let mut last = String::new();
    for attempt in 0..12 {
        match eval() {
            Ok(Some(_)) => fails += 1,
            Ok(None) => last = "re-execution passed".into(),
            Err(e) => return Err(e),
        }
        if attempt == 1 && fails == 2 {
            return Ok(fails); // the common, deterministic case: failed twice in a row
        }
        if fails >= 2 && attempt >= 3 {
            return Ok(fails);
        }
    }
    if fails >= 2 {
        Ok(fails)
    } else {
        Err(format!("failed only {} time(s) in 12 re-executions from scratch ({})", fails, last))
    }
}
