//! C08 — ORDER BY, LIMIT/OFFSET and DISTINCT return correct sequences (DESIGN §5 C08).
//!
//! Space: every multiset of ≤ n rows over a row menu with ties and NULLs (`t(id, a, b, c)`, ids
//! assigned 1..k) × index configuration (none or one index of a menu; index created before the rows
//! and maintained through an UPDATE of the sort column and a DELETE, or created after the rows) ×
//! every query of the SORT family (key lists of ≤ 2 keys × ASC/DESC, spelled as column / alias /
//! position / expression; LIMIT × OFFSET menu; with/without WHERE; plain, DISTINCT, aggregate and
//! set-operation paths).
//! Oracle, independent of the engine's sort: U = the engine's result of the same query without
//! ORDER BY / LIMIT / OFFSET.
//!   (1) without LIMIT/OFFSET the result is a permutation of U (bag equality);
//!   (2) the ORDER BY keys — re-evaluated by the harness from the table's rows (looked up by id) or
//!       from the result columns — are non-decreasing under "NULLs last, direction per key";
//!   (3) with LIMIT n OFFSET m the key sequence equals keys(ref_sort(U))[m .. m+n], the rows are a
//!       sub-bag of U and the length is min(n, max(0, |U| − m)); without ORDER BY only sub-bag + length;
//!   (4) DISTINCT (no LIMIT): the bag equals the set of distinct rows of the non-DISTINCT result.

use std::collections::{BTreeMap, HashMap, HashSet};

use serde_json::{json, Value};
use vcore::exec::{self, Out};
use vcore::report::Report;
use vcore::util;
use vibesql_storage::Database;

use crate::tw::{self, V};

const CREATE: &str = "CREATE TABLE t (id INT, a INT, b INT, c VARCHAR(10))";
/// the same table with every column declared NOT NULL (used only with rows that hold no NULL): an
/// implementation may take ordering shortcuts for columns it knows to be NOT NULL
const CREATE_NOT_NULL: &str = "CREATE TABLE t (id INT NOT NULL, a INT NOT NULL, b INT NOT NULL, c VARCHAR(10) NOT NULL)";
/// (a, b, c)
const ROWS: [&str; 7] = ["0, 1, 'a'", "1, 0, 'b'", "1, 1, 'a'", "NULL, 0, 'ab'", "0, NULL, NULL", "NULL, NULL, 'b'", "2, 1, 'ab'"];
const HISTORY: [&str; 2] = ["UPDATE t SET a = a + 1 WHERE id = 1", "DELETE FROM t WHERE id = 2"];

#[derive(Clone, Debug)]
struct Config {
    key: &'static str,
    ddl: Option<&'static str>,
    history: bool,
    /// columns declared NOT NULL and the rows inserted in descending id order (so that rows sharing an
    /// index key do not happen to sit in sorted order already); applies to NULL-free tables only
    notnull_rev: bool,
}

fn configs(thorough: bool) -> Vec<Config> {
    let idx: Vec<(&'static str, Option<&'static str>)> = vec![
        ("none", None),
        ("a", Some("CREATE INDEX i1 ON t (a)")),
        ("a,b", Some("CREATE INDEX i1 ON t (a, b)")),
        ("aD", Some("CREATE INDEX i1 ON t (a DESC)")),
        ("aD,b", Some("CREATE INDEX i1 ON t (a DESC, b)")),
        ("a,bD", Some("CREATE INDEX i1 ON t (a, b DESC)")),
        ("c", Some("CREATE INDEX i1 ON t (c)")),
        ("b", Some("CREATE INDEX i1 ON t (b)")),
        ("c(1)", Some("CREATE INDEX i1 ON t (c(1))")),
    ];
    let mut out = vec![];
    if thorough {
        for (k, d) in &idx {
            out.push(Config { key: k, ddl: *d, history: false, notnull_rev: false });
            out.push(Config { key: k, ddl: *d, history: true, notnull_rev: false });
            out.push(Config { key: k, ddl: *d, history: false, notnull_rev: true });
        }
    } else {
        out.push(Config { key: "none", ddl: None, history: false, notnull_rev: false });
        out.push(Config { key: "a", ddl: idx[1].1, history: false, notnull_rev: false });
        out.push(Config { key: "a,b", ddl: idx[2].1, history: true, notnull_rev: false });
        out.push(Config { key: "aD,b", ddl: idx[4].1, history: true, notnull_rev: false });
        out.push(Config { key: "c(1)", ddl: idx[8].1, history: false, notnull_rev: true });
        out.push(Config { key: "a", ddl: idx[1].1, history: false, notnull_rev: true });
    }
    out
}

fn multisets(n_items: usize, max: usize) -> Vec<Vec<usize>> {
    let mut out = vec![];
    for k in 0..=max {
        out.extend(util::multisets(n_items, k));
    }
    out
}

fn applicable(rows: &[usize], cfg: &Config) -> bool {
    !cfg.notnull_rev || rows.iter().all(|r| !ROWS[*r].contains("NULL"))
}

fn build_db(rows: &[usize], cfg: &Config) -> Result<Database, String> {
    let mut db = exec::fresh(&[if cfg.notnull_rev { CREATE_NOT_NULL } else { CREATE }]);
    // history variant: the index exists first and is maintained through INSERT, UPDATE and DELETE
    if cfg.history {
        if let Some(d) = cfg.ddl {
            exec::must(&mut db, d);
        }
    }
    if !rows.is_empty() {
        let mut vals: Vec<String> = rows.iter().enumerate().map(|(i, r)| format!("({}, {})", i + 1, ROWS[*r])).collect();
        if cfg.notnull_rev {
            vals.reverse();
        }
        let o = exec::exec(&mut db, &format!("INSERT INTO t VALUES {}", vals.join(", ")));
        if !o.is_ok() {
            return Err(format!("rows rejected: {}", o.brief()));
        }
    }
    if cfg.history {
        for h in HISTORY {
            let o = exec::exec(&mut db, h);
            if !o.is_ok() {
                return Err(format!("history statement rejected: {} => {}", h, o.brief()));
            }
        }
    } else if let Some(d) = cfg.ddl {
        exec::must(&mut db, d);
    }
    Ok(db)
}

// ------------------------------------------------------------------------------------------------
// queries

#[derive(Clone, Debug, PartialEq)]
enum KeyRef {
    /// column of the base row (0 id, 1 a, 2 b, 3 c), looked up through the id in result column 0
    Base(usize),
    /// a + b of the base row
    BaseSum,
    /// column of the result row itself
    Res(usize),
}

#[derive(Clone, Debug)]
struct Q {
    sql: String,
    /// same query without ORDER BY / LIMIT / OFFSET
    unordered: String,
    /// for DISTINCT queries: `unordered` without DISTINCT
    nodistinct: Option<String>,
    keys: Vec<(KeyRef, bool)>,
    limit: Option<usize>,
    offset: Option<usize>,
    path: &'static str,
    spell: String,
    dirs: String,
    wname: &'static str,
    lname: String,
}

fn lim_sql(l: Option<usize>, o: Option<usize>) -> (String, String) {
    let mut s = String::new();
    if let Some(n) = l {
        s.push_str(&format!(" LIMIT {}", n));
    }
    if let Some(m) = o {
        s.push_str(&format!(" OFFSET {}", m));
    }
    let name = match (l, o) {
        (None, None) => "none".to_string(),
        (Some(n), None) => format!("limit{}", n),
        (None, Some(m)) => format!("offset{}", m),
        (Some(n), Some(m)) => format!("limit{}_offset{}", n, m),
    };
    (s, name)
}

fn limit_menu(thorough: bool) -> Vec<(Option<usize>, Option<usize>)> {
    if thorough {
        let mut v = vec![];
        for l in [None, Some(0), Some(1), Some(2), Some(5)] {
            for o in [None, Some(0), Some(1), Some(5)] {
                v.push((l, o));
            }
        }
        v
    } else {
        vec![(None, None), (Some(0), None), (Some(1), None), (Some(2), None), (Some(2), Some(1)), (Some(5), Some(0)), (Some(1), Some(5)), (None, Some(1)), (Some(5), Some(2))]
    }
}

fn dirs_name(d: &[bool]) -> String {
    d.iter().map(|x| if *x { "D" } else { "A" }).collect()
}

pub fn query_menu_len(thorough: bool) -> usize {
    query_menu(thorough).len()
}

fn query_menu(thorough: bool) -> Vec<Q> {
    let mut qs = vec![];
    let limits = limit_menu(thorough);
    let col = ["id", "a", "b", "c"];
    // key lists over base columns a, b, c
    let mut lists: Vec<Vec<(usize, bool)>> = vec![];
    for k in 1..=3 {
        for d in [false, true] {
            lists.push(vec![(k, d)]);
        }
    }
    for k1 in 1..=3 {
        for k2 in 1..=3 {
            if k1 != k2 {
                for d1 in [false, true] {
                    for d2 in [false, true] {
                        lists.push(vec![(k1, d1), (k2, d2)]);
                    }
                }
            }
        }
    }
    let wheres: Vec<(&str, &'static str)> = vec![("", "none"), (" WHERE a > 0", "a>0"), (" WHERE b = 1", "b=1"), (" WHERE a IS NOT NULL", "a_not_null")];
    let n_where = if thorough { 4 } else { 2 };
    // plain path, three spellings of the same key lists
    for (li, list) in lists.iter().enumerate() {
        let dirs: Vec<bool> = list.iter().map(|(_, d)| *d).collect();
        let keys: Vec<(KeyRef, bool)> = list.iter().map(|(k, d)| (KeyRef::Base(*k), *d)).collect();
        let spellings: Vec<(&str, String, String)> = vec![
            ("column", "id, a, b, c".to_string(), list.iter().map(|(k, d)| format!("{}{}", col[*k], if *d { " DESC" } else { "" })).collect::<Vec<_>>().join(", ")),
            ("alias", "id, a AS x, b AS y, c AS z".to_string(), list.iter().map(|(k, d)| format!("{}{}", ["", "x", "y", "z"][*k], if *d { " DESC" } else { "" })).collect::<Vec<_>>().join(", ")),
            ("position", "id, a, b, c".to_string(), list.iter().map(|(k, d)| format!("{}{}", k + 1, if *d { " DESC" } else { "" })).collect::<Vec<_>>().join(", ")),
            ("not_selected", "id".to_string(), list.iter().map(|(k, d)| format!("{}{}", col[*k], if *d { " DESC" } else { "" })).collect::<Vec<_>>().join(", ")),
        ];
        for (si, (sname, sel, ob)) in spellings.iter().enumerate() {
            // quick: every list spelled as columns; the other spellings on a third of the lists each
            if !thorough && si > 0 && li % 3 != si - 1 {
                continue;
            }
            for (wi, (w, wname)) in wheres.iter().take(n_where).enumerate() {
                if !thorough && wi > 0 && si > 0 {
                    continue;
                }
                for (l, o) in &limits {
                    let (ls, lname) = lim_sql(*l, *o);
                    qs.push(Q {
                        sql: format!("SELECT {} FROM t{} ORDER BY {}{}", sel, w, ob, ls),
                        unordered: format!("SELECT {} FROM t{}", sel, w),
                        nodistinct: None,
                        keys: keys.clone(),
                        limit: *l,
                        offset: *o,
                        path: "plain",
                        spell: sname.to_string(),
                        dirs: dirs_name(&dirs),
                        wname,
                        lname,
                    });
                }
            }
        }
    }
    // expression keys, id keys, no ORDER BY at all
    let extra: Vec<(&str, &str, Vec<(KeyRef, bool)>, &str)> = vec![
        ("id, a, b, c", "a + b", vec![(KeyRef::BaseSum, false)], "expr"),
        ("id, a, b, c", "a + b DESC", vec![(KeyRef::BaseSum, true)], "expr"),
        ("id, a + b AS e, c", "e", vec![(KeyRef::BaseSum, false)], "expr_alias"),
        ("id, a + b AS e, c", "e DESC, c", vec![(KeyRef::BaseSum, true), (KeyRef::Base(3), false)], "expr_alias"),
        ("id, c", "a + b DESC, c DESC", vec![(KeyRef::BaseSum, true), (KeyRef::Base(3), true)], "expr"),
        ("id, a, b, c", "c, a + b", vec![(KeyRef::Base(3), false), (KeyRef::BaseSum, false)], "expr"),
        ("id, a, b, c", "id DESC", vec![(KeyRef::Base(0), true)], "column"),
        ("id, a, b, c", "a, id DESC", vec![(KeyRef::Base(1), false), (KeyRef::Base(0), true)], "column"),
        ("id, a, b, c", "a DESC, b, c DESC", vec![(KeyRef::Base(1), true), (KeyRef::Base(2), false), (KeyRef::Base(3), true)], "column"),
        ("id, a AS b, b AS a", "a, b", vec![(KeyRef::Base(2), false), (KeyRef::Base(1), false)], "alias_shadows_column"),
    ];
    for (sel, ob, keys, spell) in &extra {
        for (w, wname) in wheres.iter().take(2) {
            for (l, o) in &limits {
                let (ls, lname) = lim_sql(*l, *o);
                qs.push(Q {
                    sql: format!("SELECT {} FROM t{} ORDER BY {}{}", sel, w, ob, ls),
                    unordered: format!("SELECT {} FROM t{}", sel, w),
                    nodistinct: None,
                    keys: keys.clone(),
                    limit: *l,
                    offset: *o,
                    path: "plain",
                    spell: spell.to_string(),
                    dirs: dirs_name(&keys.iter().map(|(_, d)| *d).collect::<Vec<_>>()),
                    wname,
                    lname,
                });
            }
        }
    }
    for (w, wname) in wheres.iter().take(2) {
        for (l, o) in &limits {
            if l.is_none() && o.is_none() {
                continue;
            }
            let (ls, lname) = lim_sql(*l, *o);
            qs.push(Q { sql: format!("SELECT id, a, b, c FROM t{}{}", w, ls), unordered: format!("SELECT id, a, b, c FROM t{}", w), nodistinct: None, keys: vec![], limit: *l, offset: *o, path: "plain", spell: "no_order_by".into(), dirs: String::new(), wname, lname });
        }
    }
    // DISTINCT path: keys are result columns
    let dsel: Vec<(&str, Vec<(&str, Vec<(KeyRef, bool)>)>)> = vec![
        // (ORDER BY on a *subset* of the DISTINCT columns: equal rows need not be adjacent after the sort)
        ("a, b", vec![("", vec![]), ("a", vec![(KeyRef::Res(0), false)]), ("b DESC", vec![(KeyRef::Res(1), true)]), ("a, b", vec![(KeyRef::Res(0), false), (KeyRef::Res(1), false)]), ("a DESC, b", vec![(KeyRef::Res(0), true), (KeyRef::Res(1), false)]), ("b DESC, a DESC", vec![(KeyRef::Res(1), true), (KeyRef::Res(0), true)]), ("2, 1 DESC", vec![(KeyRef::Res(1), false), (KeyRef::Res(0), true)])]),
        ("a", vec![("", vec![]), ("a", vec![(KeyRef::Res(0), false)]), ("a DESC", vec![(KeyRef::Res(0), true)]), ("1", vec![(KeyRef::Res(0), false)])]),
        ("c", vec![("", vec![]), ("c DESC", vec![(KeyRef::Res(0), true)])]),
        ("a + b AS e", vec![("", vec![]), ("e", vec![(KeyRef::Res(0), false)])]),
        ("c, a", vec![("c, a DESC", vec![(KeyRef::Res(0), false), (KeyRef::Res(1), true)])]),
    ];
    for (sel, obs) in &dsel {
        for (ob, keys) in obs {
            for (w, wname) in wheres.iter().take(2) {
                for (l, o) in &limits {
                    let (ls, lname) = lim_sql(*l, *o);
                    let obs = if ob.is_empty() { String::new() } else { format!(" ORDER BY {}", ob) };
                    qs.push(Q {
                        sql: format!("SELECT DISTINCT {} FROM t{}{}{}", sel, w, obs, ls),
                        unordered: format!("SELECT DISTINCT {} FROM t{}", sel, w),
                        nodistinct: Some(format!("SELECT {} FROM t{}", sel, w)),
                        keys: keys.clone(),
                        limit: *l,
                        offset: *o,
                        path: "distinct",
                        spell: if ob.is_empty() { "no_order_by".into() } else if ob.chars().next().unwrap().is_ascii_digit() { "position".into() } else { "column".into() },
                        dirs: dirs_name(&keys.iter().map(|(_, d)| *d).collect::<Vec<_>>()),
                        wname,
                        lname,
                    });
                }
            }
        }
    }
    // aggregate path
    let agg: Vec<(&str, &str, Vec<(KeyRef, bool)>, &str)> = vec![
        ("SELECT a, COUNT(*) AS n, MAX(b) AS m FROM t GROUP BY a", "a", vec![(KeyRef::Res(0), false)], "column"),
        ("SELECT a, COUNT(*) AS n, MAX(b) AS m FROM t GROUP BY a", "a DESC", vec![(KeyRef::Res(0), true)], "column"),
        ("SELECT a, COUNT(*) AS n, MAX(b) AS m FROM t GROUP BY a", "n DESC, a", vec![(KeyRef::Res(1), true), (KeyRef::Res(0), false)], "alias"),
        ("SELECT a, COUNT(*) AS n, MAX(b) AS m FROM t GROUP BY a", "2 DESC, 1", vec![(KeyRef::Res(1), true), (KeyRef::Res(0), false)], "position"),
        ("SELECT a, COUNT(*) AS n, MAX(b) AS m FROM t GROUP BY a", "m, a DESC", vec![(KeyRef::Res(2), false), (KeyRef::Res(0), true)], "alias"),
        ("SELECT a, COUNT(*) AS n, MAX(b) AS m FROM t GROUP BY a", "COUNT(*), a", vec![(KeyRef::Res(1), false), (KeyRef::Res(0), false)], "aggregate_expr"),
        ("SELECT a, b, COUNT(*) AS n FROM t GROUP BY a, b", "a, b DESC", vec![(KeyRef::Res(0), false), (KeyRef::Res(1), true)], "column"),
        ("SELECT a, b, COUNT(*) AS n FROM t GROUP BY a, b", "3 DESC, 1, 2", vec![(KeyRef::Res(2), true), (KeyRef::Res(0), false), (KeyRef::Res(1), false)], "position"),
        ("SELECT c, SUM(a) AS sa FROM t GROUP BY c", "sa DESC, c", vec![(KeyRef::Res(1), true), (KeyRef::Res(0), false)], "alias"),
        ("SELECT a, COUNT(*) AS n, MAX(b) AS m FROM t GROUP BY a", "", vec![], "no_order_by"),
        ("SELECT COUNT(*) AS n, MAX(a) AS m FROM t", "", vec![], "no_group_no_order_by"),
        ("SELECT COUNT(*) AS n, MAX(a) AS m FROM t", "1", vec![(KeyRef::Res(0), false)], "no_group_position"),
    ];
    for (base, ob, keys, spell) in &agg {
        for (l, o) in &limits {
            let (ls, lname) = lim_sql(*l, *o);
            let obs = if ob.is_empty() { String::new() } else { format!(" ORDER BY {}", ob) };
            qs.push(Q { sql: format!("{}{}{}", base, obs, ls), unordered: base.to_string(), nodistinct: None, keys: keys.clone(), limit: *l, offset: *o, path: "aggregate", spell: spell.to_string(), dirs: dirs_name(&keys.iter().map(|(_, d)| *d).collect::<Vec<_>>()), wname: "none", lname });
        }
    }
    // set-operation path
    let setops: Vec<(&str, &str, Vec<(KeyRef, bool)>, &str)> = vec![
        ("SELECT a, b FROM t UNION ALL SELECT b, a FROM t", "1, 2", vec![(KeyRef::Res(0), false), (KeyRef::Res(1), false)], "position"),
        ("SELECT a, b FROM t UNION ALL SELECT b, a FROM t", "a DESC, b", vec![(KeyRef::Res(0), true), (KeyRef::Res(1), false)], "column"),
        ("SELECT a, b FROM t UNION ALL SELECT b, a FROM t", "", vec![], "no_order_by"),
        ("SELECT a FROM t UNION ALL SELECT b FROM t", "1 DESC", vec![(KeyRef::Res(0), true)], "position"),
        ("SELECT a FROM t UNION ALL SELECT b FROM t", "a", vec![(KeyRef::Res(0), false)], "column"),
        ("SELECT a FROM t UNION SELECT b FROM t", "a DESC", vec![(KeyRef::Res(0), true)], "column"),
        ("SELECT a FROM t UNION SELECT b FROM t", "1", vec![(KeyRef::Res(0), false)], "position"),
        ("SELECT a, c FROM t INTERSECT SELECT a, c FROM t", "2 DESC, 1", vec![(KeyRef::Res(1), true), (KeyRef::Res(0), false)], "position"),
        ("SELECT a FROM t EXCEPT SELECT b FROM t", "a", vec![(KeyRef::Res(0), false)], "column"),
        ("SELECT c FROM t UNION ALL SELECT c FROM t WHERE a > 0", "c DESC", vec![(KeyRef::Res(0), true)], "column"),
    ];
    for (base, ob, keys, spell) in &setops {
        for (l, o) in &limits {
            let (ls, lname) = lim_sql(*l, *o);
            let obs = if ob.is_empty() { String::new() } else { format!(" ORDER BY {}", ob) };
            qs.push(Q { sql: format!("{}{}{}", base, obs, ls), unordered: base.to_string(), nodistinct: None, keys: keys.clone(), limit: *l, offset: *o, path: "setop", spell: spell.to_string(), dirs: dirs_name(&keys.iter().map(|(_, d)| *d).collect::<Vec<_>>()), wname: if base.contains("WHERE") { "a>0" } else { "none" }, lname });
        }
    }
    qs
}

// ------------------------------------------------------------------------------------------------
// oracle

enum Verdict {
    Holds { ties: bool, null_keys: bool },
    Skipped,
    Fails(String),
}

fn key_of(k: &KeyRef, row: &[V], base: &HashMap<String, Vec<V>>) -> Option<V> {
    match k {
        KeyRef::Res(i) => row.get(*i).cloned(),
        KeyRef::Base(c) => base.get(&tw::row_key(&row[0..1])).map(|b| b[*c].clone()),
        KeyRef::BaseSum => base.get(&tw::row_key(&row[0..1])).map(|b| match (&b[1], &b[2]) {
            (V::Num(Some(x), _), V::Num(Some(y), _)) => V::Num(Some(x + y), (x + y) as f64),
            _ => V::Null,
        }),
    }
}

fn judge(db: &Database, q_sql: &str, unordered_sql: &str, nodistinct_sql: Option<&str>, keys: &[(KeyRef, bool)], limit: Option<usize>, offset: Option<usize>, cache: &mut HashMap<String, Out>) -> Verdict {
    let mut get = |sql: &str| -> Out { cache.entry(sql.to_string()).or_insert_with(|| exec::select(db, sql)).clone() };
    let u = get(unordered_sql);
    let r = exec::select(db, q_sql);
    let (u, r) = match (&u, &r) {
        (Out::Rows(_), Out::Rows(_)) => (tw::rows_v(&u).unwrap(), tw::rows_v(&r).unwrap()),
        (_, Out::Panic(m)) => return Verdict::Fails(format!("the query panicked: {}", util::trunc(m, 200))),
        _ => return Verdict::Skipped,
    };
    let base: HashMap<String, Vec<V>> = vcore::obs::rows_of(db, "T").iter().map(|x| tw::row_of(x)).map(|x| (tw::row_key(&x[0..1]), x)).collect();
    let desc: Vec<bool> = keys.iter().map(|(_, d)| *d).collect();
    let keyrow = |row: &Vec<V>| -> Option<Vec<V>> { keys.iter().map(|(k, _)| key_of(k, row, &base)).collect() };
    let (bu, br) = (tw::bag_of(&u), tw::bag_of(&r));
    // (4) DISTINCT returns each distinct row exactly once
    if let Some(nd) = nodistinct_sql {
        if let Some(ndr) = tw::rows_v(&get(nd)) {
            let set: BTreeMap<String, usize> = tw::bag_of(&ndr).into_keys().map(|k| (k, 1)).collect();
            if bu != set {
                return Verdict::Fails(format!("DISTINCT result {} is not the set of distinct rows of {}", tw::fmt_rows(&u), tw::fmt_rows(&ndr)));
            }
        }
    }
    // (2) sortedness by re-evaluated keys
    let kr: Option<Vec<Vec<V>>> = r.iter().map(keyrow).collect();
    let Some(kr) = kr else {
        return Verdict::Fails(format!("a result row carries an id that is not in the table: {}", tw::fmt_rows(&r)));
    };
    if !keys.is_empty() {
        if let Some(pos) = tw::first_unsorted(&kr, &desc) {
            return Verdict::Fails(format!("result not sorted by the ORDER BY keys (NULLs last) at row {}: {} (keys {})", pos, tw::fmt_rows(&r), tw::fmt_rows(&kr)));
        }
    }
    let ku: Option<Vec<Vec<V>>> = u.iter().map(keyrow).collect();
    let Some(ku) = ku else { return Verdict::Skipped };
    let sorted = tw::ref_sort(ku, &desc);
    let ties = sorted.windows(2).any(|w| tw::keys_equal(&w[0], &w[1]));
    let null_keys = sorted.iter().any(|k| k.iter().any(|v| *v == V::Null));
    if limit.is_none() && offset.is_none() {
        // (1) permutation of the unordered result
        if bu != br {
            return Verdict::Fails(format!("result {} is not a permutation of the unordered result {}", tw::fmt_rows(&r), tw::fmt_rows(&u)));
        }
    } else {
        // (3) the slice [m, m+n)
        let m = offset.unwrap_or(0);
        let avail = u.len().saturating_sub(m);
        let want = limit.map(|n| n.min(avail)).unwrap_or(avail);
        if r.len() != want {
            return Verdict::Fails(format!("LIMIT {:?} OFFSET {:?} over {} rows must return {} rows, returned {}: {}", limit, offset, u.len(), want, r.len(), tw::fmt_rows(&r)));
        }
        if !tw::sub_bag(&br, &bu) {
            return Verdict::Fails(format!("rows {} are not a sub-bag of the unlimited result {}", tw::fmt_rows(&r), tw::fmt_rows(&u)));
        }
        if !keys.is_empty() {
            let exp = &sorted[m.min(sorted.len())..(m + want).min(sorted.len())];
            if exp.len() != kr.len() || !exp.iter().zip(&kr).all(|(a, b)| tw::keys_equal(a, b)) {
                return Verdict::Fails(format!("key sequence {} is not the slice [{}, {}) of the sorted keys {} (result {})", tw::fmt_rows(&kr), m, m + want, tw::fmt_rows(&sorted), tw::fmt_rows(&r)));
            }
        }
    }
    Verdict::Holds { ties, null_keys }
}

// ------------------------------------------------------------------------------------------------
// cases / replay

fn key_json(keys: &[(KeyRef, bool)]) -> Value {
    json!(keys
        .iter()
        .map(|(k, d)| match k {
            KeyRef::Base(c) => json!(["base", c, d]),
            KeyRef::BaseSum => json!(["base_sum", 0, d]),
            KeyRef::Res(c) => json!(["res", c, d]),
        })
        .collect::<Vec<_>>())
}

fn case_json(rows: &[usize], cfg: &Config, q: &Q) -> Value {
    json!({
        "create": CREATE,
        "rows": rows,
        "row_values": rows.iter().enumerate().map(|(i, r)| format!("({}, {})", i + 1, ROWS[*r])).collect::<Vec<_>>(),
        "index": cfg.ddl,
        "index_key": cfg.key,
        "history": cfg.history,
        "notnull_rev": cfg.notnull_rev,
        "history_steps": if cfg.history { HISTORY.to_vec() } else { vec![] },
        "query": q.sql,
        "unordered": q.unordered,
        "nodistinct": q.nodistinct,
        "keys": key_json(&q.keys),
        "limit": q.limit,
        "offset": q.offset,
        "note": "history=false: create, INSERT rows, index; history=true: create, index, INSERT rows, history_steps"
    })
}

fn eval_case(case: &Value, verbose: bool) -> Result<Option<String>, String> {
    let rows: Vec<usize> = case["rows"].as_array().map(|a| a.iter().filter_map(|x| x.as_u64().map(|u| u as usize)).collect()).unwrap_or_default();
    let ddl: Option<&'static str> = case["index"].as_str().and_then(|d| configs(true).into_iter().find(|c| c.ddl == Some(d)).and_then(|c| c.ddl));
    let cfg = Config { key: "replay", ddl, history: case["history"].as_bool().unwrap_or(false), notnull_rev: case["notnull_rev"].as_bool().unwrap_or(false) };
    let db = build_db(&rows, &cfg)?;
    let keys: Vec<(KeyRef, bool)> = case["keys"]
        .as_array()
        .map(|a| {
            a.iter()
                .map(|k| {
                    let c = k[1].as_u64().unwrap_or(0) as usize;
                    let d = k[2].as_bool().unwrap_or(false);
                    match k[0].as_str() {
                        Some("base") => (KeyRef::Base(c), d),
                        Some("base_sum") => (KeyRef::BaseSum, d),
                        _ => (KeyRef::Res(c), d),
                    }
                })
                .collect()
        })
        .unwrap_or_default();
    let q = case["query"].as_str().ok_or("no query")?;
    let u = case["unordered"].as_str().ok_or("no unordered query")?;
    let nd = case["nodistinct"].as_str();
    if verbose {
        println!("-- table: {}", exec::select(&db, "SELECT * FROM t").brief());
        println!("-- index: {:?}  maintained through history: {}", cfg.ddl, cfg.history);
        println!("{}\n   => {}", u, exec::select(&db, u).brief());
        println!("{}\n   => {}", q, exec::select(&db, q).brief());
    }
    let mut cache = HashMap::new();
    Ok(match judge(&db, q, u, nd, &keys, case["limit"].as_u64().map(|x| x as usize), case["offset"].as_u64().map(|x| x as usize), &mut cache) {
        Verdict::Fails(w) => Some(w),
        _ => None,
    })
}

pub fn replay(case: &Value) -> i32 {
    match eval_case(case, true) {
        Ok(Some(w)) => {
            println!("VERDICT: violated — {}", w);
            1
        }
        Ok(None) => {
            println!("VERDICT: holds on this tree");
            0
        }
        Err(e) => {
            eprintln!("MACHINERY-ERROR {}", e);
            2
        }
    }
}

// ------------------------------------------------------------------------------------------------

#[derive(Default)]
struct Res {
    fails: Vec<(Vec<(&'static str, String)>, String, Value)>,
    checked: u64,
    skipped: u64,
    with_ties: u64,
    with_null_keys: u64,
    by_path: BTreeMap<&'static str, u64>,
    outcomes: HashSet<u64>,
}

pub fn run(tier: &str) -> i32 {
    let mut rep = Report::new("C08", tier, "model_checking");
    vibesql_types::verif::reset();
    let thorough = tier == "thorough";
    let max_secs: f64 = std::env::var("VERIF_C08_SECS").ok().and_then(|s| s.parse().ok()).unwrap_or(if thorough { 800.0 } else { 17.0 });
    let cfgs = configs(thorough);
    let menu = query_menu(thorough);
    let mut dbs = multisets(ROWS.len(), if thorough { 4 } else { 2 });
    if !thorough {
        // a few larger tables with many ties and NULLs (every row value once; duplicates of the tie-heavy rows)
        dbs.push(vec![0, 1, 2, 3, 4, 5, 6]);
        dbs.push(vec![2, 1, 1, 0, 3, 5]);
        dbs.push(vec![4, 3, 2, 2, 0]);
        // NULL-free tables with shared index keys / shared prefixes ('a' and 'ab')
        // (the explicit lists are insertion orders: duplicates that are not adjacent in storage order)
        dbs.push(vec![0, 2, 0]);
        dbs.push(vec![2, 0, 2, 0]);
        dbs.push(vec![0, 1, 2, 6, 6]);
        dbs.push(vec![0, 2, 6]);
    }
    // examination order: the tables with most ties and NULLs first and configurations interleaved, so that a run cut
    // short by the time cap has seen the dense cases; reporting below is simplest-first again
    let mut by_size: Vec<usize> = (0..dbs.len()).collect();
    by_size.sort_by_key(|i| std::cmp::Reverse(dbs[*i].len()));
    let mut items: Vec<(usize, usize)> = vec![];
    for &di in &by_size {
        if dbs[di].len() > 2 {
            for ci in 0..cfgs.len() {
                if applicable(&dbs[di], &cfgs[ci]) {
                    items.push((di, ci));
                }
            }
        }
    }
    for &di in &by_size {
        if dbs[di].len() <= 2 {
            for ci in 0..cfgs.len() {
                if applicable(&dbs[di], &cfgs[ci]) {
                    items.push((di, ci));
                }
            }
        }
    }
    let deadline = std::sync::atomic::AtomicBool::new(false);
    let results: Vec<Option<Result<Res, String>>> = util::par_map(&items, |_, (di, ci)| {
        if rep.start.elapsed().as_secs_f64() > max_secs {
            deadline.store(true, std::sync::atomic::Ordering::Relaxed);
            return None;
        }
        let (rows, cfg) = (&dbs[*di], &cfgs[*ci]);
        let db = match build_db(rows, cfg) {
            Ok(d) => d,
            Err(e) => return Some(Err(e)),
        };
        let mut r = Res::default();
        let mut cache: HashMap<String, Out> = HashMap::new();
        for (qi, q) in menu.iter().enumerate() {
            if qi % 100 == 0 && rep.start.elapsed().as_secs_f64() > max_secs {
                deadline.store(true, std::sync::atomic::Ordering::Relaxed);
                return None; // time cap: this item is not counted as examined
            }
            match judge(&db, &q.sql, &q.unordered, q.nodistinct.as_deref(), &q.keys, q.limit, q.offset, &mut cache) {
                Verdict::Holds { ties, null_keys } => {
                    r.checked += 1;
                    r.with_ties += ties as u64;
                    r.with_null_keys += null_keys as u64;
                    *r.by_path.entry(q.path).or_insert(0) += 1;
                }
                Verdict::Skipped => r.skipped += 1,
                Verdict::Fails(what) => {
                    r.checked += 1;
                    *r.by_path.entry(q.path).or_insert(0) += 1;
                    let sig = vec![
                        ("path", q.path.to_string()),
                        ("spelling", q.spell.clone()),
                        ("dirs", q.dirs.clone()),
                        ("where", q.wname.to_string()),
                        ("limit", q.lname.clone()),
                        ("index", cfg.key.to_string()),
                        ("history", cfg.history.to_string()),
                    ];
                    let what = format!("`{}` [rows {}; index {:?}; history {}] {}", q.sql, rows.iter().enumerate().map(|(i, x)| format!("({}, {})", i + 1, ROWS[*x])).collect::<Vec<_>>().join(","), cfg.ddl, cfg.history, what);
                    r.fails.push((sig, what, case_json(rows, cfg, q)));
                }
            }
        }
        for o in cache.values() {
            if let Out::Rows(rows) = o {
                r.outcomes.insert(util::hash64(format!("{:?}", vcore::val::bag(rows)).as_bytes()));
            }
        }
        Some(Ok(r))
    });
    let mut total = Res::default();
    let mut confirmed: HashSet<String> = HashSet::new();
    let mut done = 0u64;
    let mut samples: Vec<Value> = vec![];
    let mut order: Vec<(&(usize, usize), Option<Result<Res, String>>)> = items.iter().zip(results).collect();
    order.sort_by_key(|((di, ci), _)| (dbs[*di].len(), *di, *ci));
    for ((di, ci), r) in order {
        let Some(r) = r else { continue };
        let r = match r {
            Ok(r) => r,
            Err(e) => {
                rep.machinery_error(format!("rows {:?} config {}: {}", dbs[*di], cfgs[*ci].key, e));
                continue;
            }
        };
        done += 1;
        total.checked += r.checked;
        total.skipped += r.skipped;
        total.with_ties += r.with_ties;
        total.with_null_keys += r.with_null_keys;
        for (k, v) in r.by_path {
            *total.by_path.entry(k).or_insert(0) += v;
        }
        total.outcomes.extend(r.outcomes);
        if samples.len() < 6 && dbs[*di].len() >= 2 && (samples.len() < 2 || *ci > 0) {
            samples.push(json!({"rows": dbs[*di].iter().map(|x| ROWS[*x]).collect::<Vec<_>>(), "index": cfgs[*ci].key, "history": cfgs[*ci].history, "queries": menu.len(), "failing": r.fails.len()}));
        }
        for (sig, what, case) in r.fails {
            let key = sig.iter().map(|(k, v)| format!("{}={}", k, v)).collect::<Vec<_>>().join(";");
            if confirmed.insert(key) {
                if let Err(e) = tw::confirm(&|| eval_case(&case, false)) {
                    rep.machinery_error(format!("case did not reproduce from scratch: {} :: {}", e, what));
                    continue;
                }
            }
            rep.violation(&sig, what, case);
        }
    }
    let capped = deadline.load(std::sync::atomic::Ordering::Relaxed);
    let (reach, vac) = vcore::report::reach_json(&["index_scan"]);
    rep.set("states", json!(done));
    rep.set("transitions", json!(total.checked));
    rep.set("traces_validated_against_impl", json!(total.checked));
    rep.set("databases", json!(dbs.len()));
    rep.set("max_rows", json!(dbs.iter().map(|d| d.len()).max().unwrap_or(0)));
    rep.set("index_configurations", json!(cfgs.iter().map(|c| format!("{}{}", c.key, if c.history { "+history" } else { "" })).collect::<Vec<_>>()));
    rep.set("queries", json!(menu.len()));
    rep.set("evaluations", json!(total.checked));
    rep.set("checked_by_path", json!(total.by_path));
    rep.set("skipped_rejected_queries", json!(total.skipped));
    rep.set("cases_with_tied_keys", json!(total.with_ties));
    rep.set("cases_with_null_keys", json!(total.with_null_keys));
    rep.set("distinct_nontrivial", json!(total.outcomes.len()));
    rep.set("exhaustive", json!(!capped));
    rep.set("capped_by_time", json!(capped));
    rep.set("reach", reach);
    rep.set("vacuous_mechanisms", vac);
    rep.set("samples", json!(samples));
    rep.set("rule", json!("all multisets of rows up to the bound over a 7-value row menu × index configurations × the whole SORT query family; oracle: permutation of the unordered result, non-decreasing re-evaluated keys under NULLs-last/direction, LIMIT/OFFSET = slice of the reference-sorted key sequence + sub-bag + length, DISTINCT = set of distinct rows"));
    rep.assume("a query the engine rejects (with or without its ORDER BY/LIMIT) is not a case; ties may come in any order");
    println!(
        "C08 {}: databases={} configs={} queries={} checked={} {:?} skipped={} with-ties={} with-null-keys={} distinct-unordered-results={} capped={}",
        tier,
        dbs.len(),
        cfgs.len(),
        menu.len(),
        total.checked,
        total.by_path,
        total.skipped,
        total.with_ties,
        total.with_null_keys,
        total.outcomes.len(),
        capped
    );
    rep.finish()
}
