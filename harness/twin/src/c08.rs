//! C08 — not built yet (see DESIGN.md §5 C08).

pub fn run(_tier: &str) -> i32 {
    eprintln!("MACHINERY-ERROR C08 is not built yet");
    2
}

pub fn replay(_case: &serde_json::Value) -> i32 {
    eprintln!("MACHINERY-ERROR C08 is not built yet");
    2
}
