//! `twincheck` — checks C02, C08, C09.
//!   twincheck check <ID> <quick|thorough>
//!   twincheck replay <path>

mod c02;
mod tw;
mod c08;
mod c09;

// Every SelectExecutor allocates a zeroed 10 MiB arena per query; pool those blocks (see vcore::bigalloc)
#[global_allocator]
static GLOBAL: vcore::bigalloc::ArenaCache = vcore::bigalloc::ArenaCache;

fn usage() -> ! {
    eprintln!("usage: twincheck check <C02|C08|C09> <quick|thorough> | twincheck replay <path>");
    std::process::exit(2)
}

fn replay(path: &str) -> i32 {
    let text = match std::fs::read_to_string(path) {
        Ok(t) => t,
        Err(e) => {
            eprintln!("cannot read {}: {}", path, e);
            return 2;
        }
    };
    let v: serde_json::Value = match serde_json::from_str(&text) {
        Ok(v) => v,
        Err(e) => {
            eprintln!("bad replay file: {}", e);
            return 2;
        }
    };
    println!("property: {}", v["property"].as_str().unwrap_or("?"));
    println!("signature: {}", v["signature"]);
    println!("recorded: {}", v["what"].as_str().unwrap_or(""));
    println!("-- re-execution");
    match v["property"].as_str() {
        Some("C02") => c02::replay(&v["case"]),
        Some("C08") => c08::replay(&v["case"]),
        Some("C09") => c09::replay(&v["case"]),
        _ => {
            eprintln!("not a replay file of this package");
            2
        }
    }
}

fn main() {
    let args: Vec<String> = std::env::args().collect();
    if args.len() < 2 {
        usage();
    }
    if std::env::var("PARALLEL_THRESHOLD").is_err() {
        std::env::set_var("PARALLEL_THRESHOLD", "max");
    }
    vcore::exec::silence_panics();
    let code = match args[1].as_str() {
        "check" if args.len() >= 4 => match args[2].as_str() {
            "C02" => c02::run(&args[3]),
            "C08" => c08::run(&args[3]),
            "C09" => c09::run(&args[3]),
            other => {
                eprintln!("twincheck does not implement {}", other);
                2
            }
        },
        "replay" if args.len() >= 3 => replay(&args[2]),
        _ => usage(),
    };
    std::process::exit(code);
}
