//! Process isolation + sharding (DESIGN R4): every case space is addressed by an index range;
//! ranges are evaluated by `srvcheck worker …` child processes (address space capped with
//! `ulimit -v`), 16 at a time. A child that dies (abort, allocation failure, stack overflow) or
//! hangs on a case is attributed to the in-flight case, which is recorded as a violation; the rest
//! of the range is then evaluated by a fresh child.

use std::collections::{BTreeMap, BTreeSet};
use std::io::{BufRead, BufReader, Read, Write};
use std::process::{Command, Stdio};
use std::sync::atomic::{AtomicBool, AtomicU64, Ordering};
use std::time::{Duration, Instant};

use serde::{Deserialize, Serialize};
use serde_json::{json, Value};
use vcore::report::Report;

#[derive(Debug, Clone, Serialize, Deserialize)]
pub struct Viol {
    pub idx: u64,
    pub sig: Vec<(String, String)>,
    pub what: String,
    pub case: Value,
    pub count: u64,
}

/// What a worker reports for a range of cases.
#[derive(Debug, Clone, Default, Serialize, Deserialize)]
pub struct ChunkOut {
    pub evaluated: u64,
    pub counters: BTreeMap<String, u64>,
    /// measured distinct non-trivial observations (strings; unioned by the driver)
    pub distinct: BTreeSet<String>,
    pub viols: Vec<Viol>,
    pub samples: Vec<Value>,
    pub machinery: Vec<String>,
    /// cases not evaluated because the range was abandoned after repeated process deaths / hangs
    #[serde(default)]
    pub skipped: u64,
}

impl ChunkOut {
    pub fn count(&mut self, k: &str, n: u64) {
        if n > 0 {
            *self.counters.entry(k.to_string()).or_insert(0) += n;
        }
    }
    /// record a failing case; first witness per signature kept (ranges are walked in index order)
    pub fn viol(&mut self, idx: u64, sig: Vec<(String, String)>, what: String, case: Value) {
        if let Some(v) = self.viols.iter_mut().find(|v| v.sig == sig) {
            v.count += 1;
            return;
        }
        self.viols.push(Viol { idx, sig, what, case, count: 1 });
    }
    pub fn merge(&mut self, o: ChunkOut) {
        self.evaluated += o.evaluated;
        self.skipped += o.skipped;
        for (k, v) in o.counters {
            *self.counters.entry(k).or_insert(0) += v;
        }
        self.distinct.extend(o.distinct);
        for v in o.viols {
            if let Some(mine) = self.viols.iter_mut().find(|m| m.sig == v.sig) {
                mine.count += v.count;
            } else {
                self.viols.push(v);
            }
        }
        for s in o.samples {
            // at most 2 samples per "key" (a diversity label chosen by the check), 16 in total
            let same = self.samples.iter().filter(|x| x.get("key") == s.get("key")).count();
            if self.samples.len() < 16 && (s.get("key").is_none() || same < 2) {
                self.samples.push(s);
            }
        }
        self.machinery.extend(o.machinery);
    }
}

/// Progress cell shared between the evaluating loop and the hang watchdog.
pub struct Progress {
    pub cur: AtomicU64,
    pub mark: bool,
}

impl Progress {
    /// call before every case
    #[inline]
    pub fn begin(&self, idx: u64) {
        self.cur.store(idx, Ordering::Relaxed);
        if self.mark {
            let out = std::io::stdout();
            let mut l = out.lock();
            let _ = writeln!(l, "M {}", idx);
            let _ = l.flush();
        }
    }
}

pub trait Space: Sync {
    fn total(&self) -> u64;
    /// cases per child process
    fn chunk(&self) -> u64;
    /// index ranges handed to child processes (default: equal chunks); must tile 0..total in order
    fn ranges(&self) -> Vec<(u64, u64)> {
        let total = self.total();
        let chunk = self.chunk().max(1);
        let mut ranges = vec![];
        let mut a = 0;
        while a < total {
            let b = (a + chunk).min(total);
            ranges.push((a, b));
            a = b;
        }
        ranges
    }
    /// per-case deadline (hang guard)
    fn case_deadline(&self) -> Duration;
    /// evaluate cases `from..to` in index order
    fn run(&self, from: u64, to: u64, p: &Progress) -> ChunkOut;
    /// signature + replayable description of case `idx` (for abort / hang attribution)
    fn describe(&self, idx: u64) -> (Vec<(String, String)>, Value);
}

const NO_CASE: u64 = u64::MAX;
/// CPU time one case may burn (the slowest legitimate case, an Argon2 verification, needs < 0.5 s)
pub const CPU_LIMIT: Duration = Duration::from_secs(4);
/// process deaths / hangs attributed per range before the rest of the range is abandoned
const MAX_DEATHS_PER_RANGE: u32 = 8;

fn cpu_time() -> f64 {
    let mut ts = libc::timespec { tv_sec: 0, tv_nsec: 0 };
    unsafe {
        libc::clock_gettime(libc::CLOCK_PROCESS_CPUTIME_ID, &mut ts);
    }
    ts.tv_sec as f64 + ts.tv_nsec as f64 * 1e-9
}

/// `srvcheck worker <id> <tier> <from> <to> <fast|mark>`
pub fn worker_main(space: &dyn Space, from: u64, to: u64, mark: bool) -> i32 {
    static DONE: AtomicBool = AtomicBool::new(false);
    // 1.5 GiB of address space (the largest legitimate case needs < 100 MiB): a length field taken
    // at face value (up to 2 GiB, or ~2^64 after a sign-extending cast) fails to allocate and aborts
    // this child — attributed to the in-flight case — instead of 16 children filling the host's RAM.
    unsafe {
        let lim = libc::rlimit { rlim_cur: 3 << 29, rlim_max: 3 << 29 };
        libc::setrlimit(libc::RLIMIT_AS, &lim);
        // no core files for deliberately provoked aborts
        let z = libc::rlimit { rlim_cur: 0, rlim_max: 0 };
        libc::setrlimit(libc::RLIMIT_CORE, &z);
    }
    let p = Progress { cur: AtomicU64::new(NO_CASE), mark };
    let deadline = space.case_deadline();
    let out = std::thread::scope(|s| {
        let pr = &p;
        s.spawn(move || {
            // hang guard: the in-flight case must change before this process has burnt CPU_LIMIT of
            // CPU time on it (a busy loop; immune to a starved host), or within `deadline` of wall
            // time (a blocking hang)
            let tick = Duration::from_millis(25);
            let mut last = NO_CASE;
            let mut since = Instant::now();
            let mut cpu0 = cpu_time();
            while !DONE.load(Ordering::Relaxed) {
                std::thread::sleep(tick);
                let c = pr.cur.load(Ordering::Relaxed);
                if c != last {
                    last = c;
                    since = Instant::now();
                    cpu0 = cpu_time();
                } else if c != NO_CASE && !DONE.load(Ordering::Relaxed) && (cpu_time() - cpu0 > CPU_LIMIT.as_secs_f64() || since.elapsed() > deadline) {
                    println!("H {}", c);
                    let _ = std::io::stdout().flush();
                    std::process::exit(3);
                }
            }
        });
        let out = space.run(from, to, &p);
        DONE.store(true, Ordering::Relaxed);
        out
    });
    println!("R {}", serde_json::to_string(&out).unwrap());
    let _ = std::io::stdout().flush();
    0
}

enum ChildEnd {
    Done(ChunkOut),
    Hang(u64),
    /// died without a result; last marked case (mark mode) and a description of the death
    Died(Option<u64>, String),
    /// killed by the driver because the whole range outlived its wall budget (slow host)
    Budget,
}

fn spawn_range(id: &str, tier: &str, from: u64, to: u64, mark: bool, budget: Duration) -> ChildEnd {
    let exe = match std::env::current_exe() {
        Ok(e) => e,
        Err(e) => return ChildEnd::Died(None, format!("current_exe: {}", e)),
    };
    let mut cmd = Command::new(&exe);
    cmd.args(["worker", id, tier, &from.to_string(), &to.to_string(), if mark { "mark" } else { "fast" }])
        .stdin(Stdio::null())
        .stdout(Stdio::piped())
        .stderr(Stdio::piped());
    let mut child = match cmd.spawn() {
        Ok(c) => c,
        Err(e) => return ChildEnd::Died(None, format!("spawn: {}", e)),
    };
    let stdout = child.stdout.take().unwrap();
    let mut stderr = child.stderr.take().unwrap();
    let rd = std::thread::spawn(move || {
        let mut last_mark = None;
        let mut hang = None;
        let mut res = None;
        for line in BufReader::new(stdout).lines() {
            let Ok(line) = line else { break };
            if let Some(n) = line.strip_prefix("M ") {
                last_mark = n.trim().parse::<u64>().ok();
            } else if let Some(n) = line.strip_prefix("H ") {
                hang = n.trim().parse::<u64>().ok();
            } else if let Some(j) = line.strip_prefix("R ") {
                res = serde_json::from_str::<ChunkOut>(j).ok();
            }
        }
        (last_mark, hang, res)
    });
    let er = std::thread::spawn(move || {
        let mut s = Vec::new();
        let _ = stderr.read_to_end(&mut s);
        let t = String::from_utf8_lossy(&s).to_string();
        let t = t.trim().to_string();
        let n = t.chars().count();
        if n > 300 {
            t.chars().skip(n - 300).collect()
        } else {
            t
        }
    });
    let start = Instant::now();
    let status = loop {
        match child.try_wait() {
            Ok(Some(st)) => break Some(st),
            Ok(None) => {
                if start.elapsed() > budget {
                    let _ = child.kill();
                    let _ = child.wait();
                    break None;
                }
                std::thread::sleep(Duration::from_millis(5));
            }
            Err(_) => break None,
        }
    };
    let (last_mark, hang, res) = rd.join().unwrap_or((None, None, None));
    let err = er.join().unwrap_or_default();
    if let Some(h) = hang {
        return ChildEnd::Hang(h);
    }
    match (status, res) {
        (Some(st), Some(r)) if st.success() => ChildEnd::Done(r),
        (Some(st), _) => ChildEnd::Died(last_mark, format!("worker ended with {} {}", st, err)),
        // the driver itself killed the worker because the whole range took longer than its budget
        // (slow host): that says nothing about the case in flight
        (None, _) => ChildEnd::Budget,
    }
}

/// Evaluate `from..to`, attributing dead/hung children to the in-flight case.
fn run_range(space: &dyn Space, id: &str, tier: &str, from: u64, to: u64) -> ChunkOut {
    let mut acc = ChunkOut::default();
    let mut from = from;
    let mut mark = false;
    let mut deaths = 0;
    let mut blind = 0;
    // generous: a range is sized for seconds; the per-case guard lives in the worker
    let budget = Duration::from_secs(600);
    while from < to {
        if deaths >= MAX_DEATHS_PER_RANGE {
            // every death is already recorded as a violation; do not spend minutes re-dying
            acc.skipped += to - from;
            acc.count("skipped_after_repeated_process_death", to - from);
            return acc;
        }
        match spawn_range(id, tier, from, to, mark, budget) {
            ChildEnd::Done(r) => {
                acc.merge(r);
                return acc;
            }
            ChildEnd::Budget => {
                // not a verdict: redo the range in halves, each with a budget of its own (the per-case
                // guard inside the worker is what decides "hang")
                acc.count("range_budget_overruns", 1);
                if to - from <= 1 {
                    acc.machinery.push(format!("range {}..{}: a single case outlived the range budget without tripping its own deadline", from, to));
                    return acc;
                }
                let mid = from + (to - from) / 2;
                acc.merge(run_range(space, id, tier, from, mid));
                acc.merge(run_range(space, id, tier, mid, to));
                return acc;
            }
            ChildEnd::Hang(c) if c >= from && c < to => {
                deaths += 1;
                if c > from {
                    // the prefix finished before (deterministic), its counters died with the child
                    acc.merge(run_range(space, id, tier, from, c));
                }
                let (mut sig, case) = space.describe(c);
                sig.push(("fate".into(), "hang".into()));
                acc.evaluated += 1;
                acc.count("fate.hang", 1);
                acc.viol(c, sig, format!("case did not finish within {:?} of CPU time / {:?} of wall time (worker killed)", CPU_LIMIT, space.case_deadline()), case);
                from = c + 1;
            }
            ChildEnd::Died(_, _) if !mark => {
                // culprit unknown: repeat the range announcing every case before it starts
                mark = true;
                blind += 1;
                if blind > 2 {
                    acc.machinery.push(format!("range {}..{}: worker dies in fast mode but not in mark mode", from, to));
                    return acc;
                }
            }
            ChildEnd::Died(Some(c), why) if c >= from && c < to => {
                deaths += 1;
                if c > from {
                    acc.merge(run_range(space, id, tier, from, c));
                }
                let (mut sig, case) = space.describe(c);
                sig.push(("fate".into(), "process_death".into()));
                acc.evaluated += 1;
                acc.count("fate.process_death", 1);
                acc.viol(c, sig, format!("the process died while this case was in flight: {}", why), case);
                from = c + 1;
                // stay in mark mode: where one case kills the process, neighbours usually do too
            }
            ChildEnd::Hang(c) | ChildEnd::Died(Some(c), _) => {
                acc.machinery.push(format!("range {}..{}: worker reported case {} outside its range", from, to, c));
                return acc;
            }
            ChildEnd::Died(None, why) => {
                acc.machinery.push(format!("range {}..{}: worker died outside any case: {}", from, to, why));
                return acc;
            }
        }
    }
    acc
}

/// Drive the whole space through child processes on all cores and fill the report.
pub fn drive(space: &dyn Space, rep: &mut Report, wall_budget: Duration) -> ChunkOut {
    let total = space.total();
    let ranges = space.ranges();
    {
        // the ranges must tile the space
        let mut at = 0;
        for &(a, b) in &ranges {
            if a != at || b < a {
                rep.machinery_error(format!("ranges do not tile the space at {}..{}", a, b));
            }
            at = b;
        }
        if at != total {
            rep.machinery_error(format!("ranges cover {} of {} cases", at, total));
        }
    }
    let start = Instant::now();
    let skipped = AtomicU64::new(0);
    let id = rep.id.clone();
    let tier = rep.tier.clone();
    let outs = vcore::util::par_map(&ranges, |_, &(a, b)| {
        if start.elapsed() > wall_budget {
            skipped.fetch_add(b - a, Ordering::Relaxed);
            return ChunkOut::default();
        }
        run_range(space, &id, &tier, a, b)
    });
    let mut all = ChunkOut::default();
    for o in outs {
        all.merge(o);
    }
    let skipped = skipped.load(Ordering::Relaxed);
    for m in &all.machinery {
        rep.machinery_error(m.clone());
    }
    if all.evaluated + skipped + all.skipped != total && all.machinery.is_empty() {
        rep.machinery_error(format!("evaluated {} + skipped {} + abandoned {} != space size {}", all.evaluated, skipped, all.skipped, total));
    }
    if all.skipped > 0 {
        // Ranges were abandoned after repeated process deaths. Those deaths are violations, so the
        // verdict is "violated" — unless every one of them is a *known* finding, in which case the
        // unexplored remainder could hide a new violation behind an exit code 0: refuse to conclude.
        let known = vcore::report::load_findings(&rep.id);
        let all_known = all.viols.iter().filter(|v| v.sig.iter().any(|(k, _)| k == "fate")).all(|v| {
            known.iter().any(|f| f.sig.iter().all(|(k, want)| v.sig.iter().any(|(vk, vv)| vk == k && vv == want)))
        });
        if all_known {
            rep.machinery_error(format!("{} cases not explored: their ranges were abandoned after repeated process deaths that are all known findings", all.skipped));
        }
    }
    for v in &all.viols {
        let sig: Vec<(&str, String)> = v.sig.iter().map(|(k, x)| (k.as_str(), x.clone())).collect();
        rep.violation(&sig, v.what.clone(), v.case.clone());
        if v.count > 1 {
            rep.merge_violations(vec![], v.count - 1);
        }
    }
    rep.set("space_size", json!(total));
    rep.set("evaluations", json!(all.evaluated));
    rep.set("skipped_by_wall_cap", json!(skipped));
    rep.set("skipped_after_repeated_process_death", json!(all.skipped));
    rep.set("exhaustive", json!(skipped == 0 && all.skipped == 0 && all.machinery.is_empty()));
    rep.set("distinct_nontrivial", json!(all.distinct.len()));
    rep.set("counters", json!(all.counters));
    rep.set("samples", json!(all.samples));
    rep.set(
        "failing_signatures",
        json!(all
            .viols
            .iter()
            .map(|v| json!({"signature": v.sig.iter().map(|(k, x)| format!("{}={}", k, x)).collect::<Vec<_>>().join(";"), "cases": v.count}))
            .collect::<Vec<_>>()),
    );
    rep.set("worker_processes", json!(ranges.len()));
    all
}
