//! C27 — wire-protocol decoding is safe and respects framing (DESIGN §5 C27).
//!
//! Space (all enumerated, nothing sampled):
//!  (a) every byte string of length ≤ N (quick 7: 6.8·10⁷ strings, thorough 8: 8.8·10⁸) over
//!      Σ = {00,01,03,04,05,08,7F,80,FF,'Q','p','X','a'},
//!      each through `FrontendMessage::decode` and `FrontendMessage::decode_startup`;
//!  (b) structured regular frames  type × declared length × payload × trailing bytes;
//!  (c) structured startup packets declared length × body × trailing bytes;
//!  (d) round trips: well-formed messages encoded by the harness × suffix bytes.
//!
//! Oracle: `pgref::ref_decode` (PostgreSQL v3 framing rules) + the clauses of the property:
//!  never panics; outcome ∈ {message, need-more, error}; what is left in the buffer is a suffix of
//!  the input; need-more consumes nothing; nothing is consumed beyond the declared frame; a message
//!  is only yielded from a complete frame and consumes exactly that frame; a complete well-formed
//!  frame decodes to the message it encodes. Error *texts* are never compared.

use std::collections::{BTreeMap, HashSet};
use std::panic::{catch_unwind, AssertUnwindSafe};
use std::time::Duration;

use bytes::BytesMut;
use serde_json::{json, Value};

use crate::iso::{ChunkOut, Progress, Space};
use crate::messages::FrontendMessage;
use crate::pgref::{self, declared_len, hex, hex_short, ref_decode, Body, Decoder, Ref, RefMsg};

pub const SIGMA: [u8; 13] = [0x00, 0x01, 0x03, 0x04, 0x05, 0x08, 0x7F, 0x80, 0xFF, b'Q', b'p', b'X', b'a'];

#[derive(Debug, Clone, PartialEq)]
pub enum Outcome {
    Panic(String),
    Msg(RefMsg, Vec<u8>),
    NeedMore(Vec<u8>),
    Err(String, Vec<u8>),
}

impl Outcome {
    pub fn class(&self) -> &'static str {
        match self {
            Outcome::Panic(_) => "panic",
            Outcome::Msg(..) => "message",
            Outcome::NeedMore(_) => "need_more",
            Outcome::Err(..) => "error",
        }
    }
    fn rest(&self) -> Option<&[u8]> {
        match self {
            Outcome::Panic(_) => None,
            Outcome::Msg(_, r) | Outcome::NeedMore(r) | Outcome::Err(_, r) => Some(r),
        }
    }
    pub fn brief(&self, input_len: usize) -> String {
        match self {
            Outcome::Panic(m) => format!("PANIC({})", vcore::util::trunc(m, 120)),
            Outcome::Msg(m, r) => format!("message {} consumed={}", vcore::util::trunc(&format!("{:?}", m), 120), input_len as i64 - r.len() as i64),
            Outcome::NeedMore(r) => format!("need-more consumed={}", input_len as i64 - r.len() as i64),
            Outcome::Err(e, r) => format!("error({}) consumed={}", vcore::util::trunc(e, 80), input_len as i64 - r.len() as i64),
        }
    }
}

fn to_ref(m: FrontendMessage) -> RefMsg {
    #[allow(unreachable_patterns)]
    match m {
        FrontendMessage::Query { query } => RefMsg::Query(query),
        FrontendMessage::Password { password } => RefMsg::Password(password),
        FrontendMessage::Terminate => RefMsg::Terminate,
        FrontendMessage::SSLRequest => RefMsg::SSLRequest,
        FrontendMessage::Startup { protocol_version, params } => {
            let mut params: Vec<(String, String)> = params.into_iter().collect();
            params.sort();
            RefMsg::Startup { version: protocol_version, params }
        }
        other => RefMsg::Other(format!("{:?}", other)),
    }
}

fn same_msg(a: &RefMsg, b: &RefMsg) -> bool {
    match (a, b) {
        (RefMsg::Startup { version: v1, params: p1 }, RefMsg::Startup { version: v2, params: p2 }) => {
            let mut p1 = p1.clone();
            let mut p2 = p2.clone();
            p1.sort();
            p2.sort();
            v1 == v2 && p1 == p2
        }
        _ => a == b,
    }
}

/// Call the code under test on a private copy of `input`.
pub fn run_real(d: Decoder, input: &[u8]) -> Outcome {
    let mut buf = BytesMut::from(input);
    let r = catch_unwind(AssertUnwindSafe(|| match d {
        Decoder::Regular => FrontendMessage::decode(&mut buf),
        Decoder::Startup => FrontendMessage::decode_startup(&mut buf),
    }));
    match r {
        Err(p) => Outcome::Panic(vcore::exec::panic_msg(p)),
        Ok(Ok(Some(m))) => Outcome::Msg(to_ref(m), buf.to_vec()),
        Ok(Ok(None)) => Outcome::NeedMore(buf.to_vec()),
        Ok(Err(e)) => Outcome::Err(format!("{}", e), buf.to_vec()),
    }
}

/// `want`: for round-trip cases the message the input was encoded from and its frame length.
pub fn judge(d: Decoder, input: &[u8], want: Option<(&RefMsg, usize)>, out: &Outcome) -> Option<String> {
    judge_inner(d, input, want, out).map(|w| vcore::util::trunc(&w, 700))
}

/// Debug text of a message, shortened (messages of 1 MiB exist in the space)
struct Dm<'a>(&'a RefMsg);
impl std::fmt::Debug for Dm<'_> {
    fn fmt(&self, f: &mut std::fmt::Formatter<'_>) -> std::fmt::Result {
        match self.0 {
            RefMsg::Query(s) if s.len() > 200 => write!(f, "Query(<{} bytes>)", s.len()),
            RefMsg::Password(s) if s.len() > 200 => write!(f, "Password(<{} bytes>)", s.len()),
            m => {
                let t = format!("{:?}", m);
                if t.len() > 400 {
                    write!(f, "{}…<{} chars>", t.chars().take(200).collect::<String>(), t.len())
                } else {
                    write!(f, "{}", t)
                }
            }
        }
    }
}

fn judge_inner(d: Decoder, input: &[u8], want: Option<(&RefMsg, usize)>, out: &Outcome) -> Option<String> {
    let Some(rest) = out.rest() else {
        let Outcome::Panic(m) = out else { unreachable!() };
        return Some(format!("decoder panicked: {}", vcore::util::trunc(m, 200)));
    };
    if rest.len() > input.len() || rest != &input[input.len() - rest.len()..] {
        return Some(format!("what is left in the buffer ({}) is not a suffix of the input", hex_short(rest)));
    }
    let consumed = input.len() - rest.len();
    let r = ref_decode(d, input);
    // bytes of the declared frame when the length field is at least not negative
    let decl_frame: Option<i64> = declared_len(d, input).filter(|l| *l >= 0).map(|l| match d {
        Decoder::Regular => 1 + l,
        Decoder::Startup => l,
    });
    match out {
        Outcome::Panic(_) => unreachable!(),
        Outcome::NeedMore(_) => {
            if consumed != 0 {
                return Some(format!("asked for more bytes but consumed {} bytes", consumed));
            }
            if let Ref::Frame { flen, body: Body::Well { msg, .. } } = &r {
                return Some(format!("a complete well-formed frame of {} bytes ({:?}) is in the buffer but the decoder asks for more bytes", flen, Dm(msg)));
            }
        }
        Outcome::Err(e, _) => {
            if let Ref::Frame { flen, body: Body::Well { msg, .. } } = &r {
                return Some(format!("a complete well-formed frame of {} bytes ({:?}) was rejected with an error ({})", flen, Dm(msg), e));
            }
            if let Some(f) = decl_frame {
                if consumed as i64 > f {
                    return Some(format!("reported an error after consuming {} bytes although the declared frame has only {} bytes", consumed, f));
                }
            }
        }
        Outcome::Msg(m0, _) => {
            let m = Dm(m0);
            match &r {
            Ref::NeedMore => {
                return Some(format!(
                    "yielded {:?} although the frame is incomplete (declared length {:?}, {} bytes available); consumed {}",
                    m,
                    declared_len(d, input),
                    input.len(),
                    consumed
                ));
            }
            Ref::BadLength { declared } => {
                return Some(format!(
                    "yielded {:?} from a header whose declared length {} is below the minimum {}; consumed {} bytes",
                    m,
                    declared,
                    d.min_len(),
                    consumed
                ));
            }
            Ref::Frame { flen, body } => {
                if consumed > *flen {
                    return Some(format!("yielded {:?} consuming {} bytes; the declared frame has {} bytes (read past the frame)", m, consumed, flen));
                }
                if consumed < *flen {
                    return Some(format!(
                        "yielded {:?} consuming only {} of the frame's {} bytes (the rest of the frame stays in the buffer and would be read as the next message)",
                        m, consumed, flen
                    ));
                }
                if let Body::Well { msg, dup_keys: false } = body {
                    if !same_msg(m0, msg) {
                        return Some(format!("decoded {:?} but the frame encodes {:?}", m, Dm(msg)));
                    }
                }
            }
            }
        }
    }
    if let Some((w, flen)) = want {
        match out {
            Outcome::Msg(m, _) if same_msg(m, w) && consumed == flen => {}
            _ => return Some(format!("decode(encode({:?}) ++ suffix) gave {}", Dm(w), out.brief(input.len()))),
        }
    }
    None
}

/// Signature = features of the *input* only.
pub fn features(d: Decoder, input: &[u8]) -> Vec<(String, String)> {
    let ty = match d {
        Decoder::Startup => "startup".to_string(),
        Decoder::Regular => match input.first() {
            None => "none".into(),
            Some(b'Q') => "Q".into(),
            Some(b'p') => "p".into(),
            Some(b'X') => "X".into(),
            Some(_) => "other".into(),
        },
    };
    let len = match declared_len(d, input) {
        None => "short_header",
        Some(l) => {
            let flen = match d {
                Decoder::Regular => 1 + l,
                Decoder::Startup => l,
            };
            if l == i32::MIN as i64 {
                "i32min"
            } else if l == -1 {
                "minus1"
            } else if l < 0 {
                "negative"
            } else if l < d.min_len() {
                "lt_min"
            } else if l == i32::MAX as i64 {
                "i32max"
            } else if flen > input.len() as i64 {
                "gt_available"
            } else {
                "ok"
            }
        }
    };
    let payload = match ref_decode(d, input) {
        Ref::Frame { body: Body::Well { dup_keys: false, .. }, .. } => "wellformed",
        Ref::Frame { body: Body::Well { dup_keys: true, .. }, .. } => "wellformed_dupkeys",
        Ref::Frame { body: Body::Ill(i), .. } => i.name(),
        _ => "n/a",
    };
    vec![
        ("decoder".into(), d.name().into()),
        ("type".into(), ty),
        ("len".into(), len.into()),
        ("payload".into(), payload.into()),
    ]
}

#[derive(Debug, Clone)]
pub struct Case {
    pub d: Decoder,
    pub bytes: Vec<u8>,
    pub want: Option<(RefMsg, usize)>,
    pub origin: &'static str,
}

/// Structured cases are kept as menu coordinates and materialised on demand (the menus contain
/// 70 KB and 1 MiB members; the product is never held in memory).
#[derive(Debug, Clone, Copy)]
pub enum Spec {
    Regular { ty: u8, len: i32, payload: u16, trailing: u16 },
    Startup { len: i32, body: u16, trailing: u16 },
    Round { msg: u16, suffix: u16 },
}

pub fn case_json(d: Decoder, input: &[u8], want: Option<&(RefMsg, usize)>, origin: &str) -> Value {
    json!({
        "kind": "decode",
        "decoder": d.name(),
        "hex": hex(input),
        "origin": origin,
        "encoded_from": want.map(|(m, n)| json!({"message": m, "frame_len": n})),
    })
}

pub struct C27 {
    pub max_len: usize,
    /// number of byte strings of length < n, for n = 0..=max_len+1
    offs: Vec<u64>,
    pub structured: Vec<Spec>,
    payloads: Vec<Vec<u8>>,
    trailing: Vec<Vec<u8>>,
    bodies: Vec<Vec<u8>>,
    s_trailing: Vec<Vec<u8>>,
    msgs: Vec<RefMsg>,
    suffixes: Vec<Vec<u8>>,
}

fn be(i: i32) -> [u8; 4] {
    i.to_be_bytes()
}

fn regular_frame(ty: u8, len: i32, payload: &[u8]) -> Vec<u8> {
    let mut v = vec![ty];
    v.extend_from_slice(&be(len));
    v.extend_from_slice(payload);
    v
}

fn len_menu(truth: i32, extra: &[i32]) -> Vec<i32> {
    let mut m = vec![i32::MIN, -2, -1, 0, 1, 3, 4, 5, truth - 1, truth, truth + 1, i32::MAX - 1, i32::MAX];
    m.extend_from_slice(extra);
    let mut seen = vec![];
    for x in m {
        if !seen.contains(&x) {
            seen.push(x);
        }
    }
    seen
}

impl C27 {
    fn build_structured(&mut self, thorough: bool) {
        let mut out = vec![];
        // ---- (b) regular frames
        let types: &[u8] = &[b'Q', b'p', b'X', b'Z', b'P', 0x00, 0xFF];
        let mut payloads: Vec<Vec<u8>> = vec![
            b"".to_vec(),
            b"\0".to_vec(),
            b"a\0".to_vec(),
            b"a".to_vec(),
            b"ab".to_vec(),
            b"a\0b\0".to_vec(),
            b"a\0\0".to_vec(),
            b"\0\0".to_vec(),
            b"\xff\0".to_vec(),
            b"\xc3\0".to_vec(),
            "é\0".as_bytes().to_vec(),
            b"SELECT 1\0".to_vec(),
            b"SELECT 1".to_vec(),
        ];
        let mut long = vec![b'x'; 300];
        payloads.push(long.clone());
        long.push(0);
        payloads.push(long);
        if thorough {
            let mut big = vec![b'y'; 70_000];
            payloads.push(big.clone());
            big.push(0);
            payloads.push(big);
        }
        let q_b = regular_frame(b'Q', 6, b"b\0");
        let trailing: Vec<Vec<u8>> = vec![
            vec![],
            q_b.clone(),
            b"Q\0\0".to_vec(),
            regular_frame(b'X', 4, b""),
            b"\0".to_vec(),
            b"a".to_vec(),
            b"\0\0\0\0\0\0\0\0".to_vec(),
        ];
        for &ty in types {
            for (pi, p) in payloads.iter().enumerate() {
                let truth = 4 + p.len() as i32;
                for l in len_menu(truth, &[]) {
                    for ti in 0..trailing.len() {
                        out.push(Spec::Regular { ty, len: l, payload: pi as u16, trailing: ti as u16 });
                    }
                }
            }
        }
        // ---- (c) startup packets
        let v3 = be(196608);
        let pairs = |ps: &[(&[u8], &[u8])], final_nul: bool| -> Vec<u8> {
            let mut b = v3.to_vec();
            for (k, v) in ps {
                b.extend_from_slice(k);
                b.push(0);
                b.extend_from_slice(v);
                b.push(0);
            }
            if final_nul {
                b.push(0);
            }
            b
        };
        let mut bodies: Vec<Vec<u8>> = vec![
            pairs(&[], true),
            pairs(&[(b"user", b"a")], true),
            pairs(&[(b"user", b"a"), (b"database", "é".as_bytes())], true),
            pairs(&[(b"user", b"")], true),
            pairs(&[(b"user", b"a")], false),
            pairs(&[], false),
            pairs(&[(b"u", b"1"), (b"u", b"2")], true),
            pairs(&[(b"\xff", b"a")], true),
            pairs(&[(b"user", b"\xc3")], true),
            [&v3[..], b"user\0a"].concat(),
            [&v3[..], b"user"].concat(),
            [&pairs(&[(b"user", b"a")], true)[..], b"zz"].concat(),
            [&pairs(&[], true)[..], b"\0"].concat(),
            be(pgref::SSL_REQUEST_CODE).to_vec(),
            [&be(pgref::SSL_REQUEST_CODE)[..], b"\0"].concat(),
            [&be(80877102)[..], &be(7)[..], &be(9)[..]].concat(),
            [&be(0)[..], b"\0"].concat(),
            [&be(-1)[..], b"\0"].concat(),
            vec![],
            b"\0\0".to_vec(),
        ];
        if thorough {
            let k = vec![b'k'; 255];
            let v = vec![b'v'; 70_000];
            bodies.push(pairs(&[(&k, &v)], true));
            bodies.push(pairs(&[(&k, &v)], false));
        }
        let s_frame = {
            let b = pairs(&[(b"user", b"b")], true);
            [&be(4 + b.len() as i32)[..], &b[..]].concat()
        };
        let s_trailing: Vec<Vec<u8>> = vec![vec![], s_frame, b"\0".to_vec(), b"a".to_vec(), b"\0\0\0\0".to_vec(), q_b];
        for (bi, b) in bodies.iter().enumerate() {
            let truth = 4 + b.len() as i32;
            for l in len_menu(truth, &[7, 8, 9]) {
                for ti in 0..s_trailing.len() {
                    out.push(Spec::Startup { len: l, body: bi as u16, trailing: ti as u16 });
                }
            }
        }
        // ---- (d) round trips
        let mut strings: Vec<String> = vec![
            "".into(),
            "a".into(),
            "é".into(),
            "SELECT 1".into(),
            "a".repeat(255),
            "a".repeat(256),
            "é".repeat(128),
            "\u{1}\u{7f}".into(),
            "€𝄞".into(),
            "a".repeat(65536),
        ];
        if thorough {
            strings.push("a".repeat(65535));
            strings.push("q".repeat(1 << 20));
        }
        let mut msgs: Vec<RefMsg> = vec![RefMsg::Terminate, RefMsg::SSLRequest];
        for s in &strings {
            msgs.push(RefMsg::Query(s.clone()));
            msgs.push(RefMsg::Password(s.clone()));
        }
        let param_menus: Vec<Vec<(String, String)>> = vec![
            vec![],
            vec![("user".into(), "a".into())],
            vec![("user".into(), "a".into()), ("database".into(), "é".into())],
            vec![("user".into(), "".into())],
            vec![("k".repeat(255), "v".repeat(256))],
            vec![("user".into(), "a".into()), ("database".into(), "b".into()), ("application_name".into(), "psql".into())],
            vec![("user".into(), "a".repeat(65536))],
        ];
        for v in [196608, 0, -1, i32::MAX, 80877102] {
            for p in &param_menus {
                msgs.push(RefMsg::Startup { version: v, params: p.clone() });
            }
        }
        let suffixes: Vec<Vec<u8>> = vec![
            vec![],
            regular_frame(b'Q', 6, b"b\0"),
            b"Q\0\0".to_vec(),
            b"\0".to_vec(),
            b"a".to_vec(),
            b"\xff".to_vec(),
            regular_frame(b'X', 4, b""),
        ];
        for mi in 0..msgs.len() {
            for si in 0..suffixes.len() {
                out.push(Spec::Round { msg: mi as u16, suffix: si as u16 });
            }
        }
        self.structured = out;
        self.payloads = payloads;
        self.trailing = trailing;
        self.bodies = bodies;
        self.s_trailing = s_trailing;
        self.msgs = msgs;
        self.suffixes = suffixes;
    }

    pub fn materialise(&self, s: Spec) -> Case {
        match s {
            Spec::Regular { ty, len, payload, trailing } => {
                let mut b = regular_frame(ty, len, &self.payloads[payload as usize]);
                b.extend_from_slice(&self.trailing[trailing as usize]);
                Case { d: Decoder::Regular, bytes: b, want: None, origin: "b:regular type x length x payload x trailing" }
            }
            Spec::Startup { len, body, trailing } => {
                let mut x = be(len).to_vec();
                x.extend_from_slice(&self.bodies[body as usize]);
                x.extend_from_slice(&self.s_trailing[trailing as usize]);
                Case { d: Decoder::Startup, bytes: x, want: None, origin: "c:startup length x body x trailing" }
            }
            Spec::Round { msg, suffix } => {
                let m = &self.msgs[msg as usize];
                let (d, enc) = pgref::encode_frontend(m);
                let n = enc.len();
                let mut b = enc;
                b.extend_from_slice(&self.suffixes[suffix as usize]);
                Case { d, bytes: b, want: Some((m.clone(), n)), origin: "d:decode(encode(m) ++ suffix)" }
            }
        }
    }

    pub fn new(tier: &str) -> C27 {
        let thorough = tier == "thorough";
        let max_len = std::env::var("VERIF_C27_LEN").ok().and_then(|s| s.parse().ok()).unwrap_or(if thorough { 8 } else { 7 });
        let mut offs = vec![0u64];
        let mut pow = 1u64;
        for _ in 0..=max_len {
            offs.push(offs.last().unwrap() + pow);
            pow *= SIGMA.len() as u64;
        }
        let mut c = C27 { max_len, offs, structured: vec![], payloads: vec![], trailing: vec![], bodies: vec![], s_trailing: vec![], msgs: vec![], suffixes: vec![] };
        c.build_structured(thorough);
        c
    }
    pub fn n_strings(&self) -> u64 {
        *self.offs.last().unwrap()
    }
    /// byte string number `s` (shortest first, then lexicographic over Σ)
    fn string(&self, s: u64, buf: &mut [u8; 16]) -> usize {
        let n = (0..=self.max_len).find(|&n| s < self.offs[n + 1]).unwrap();
        let mut r = s - self.offs[n];
        for i in (0..n).rev() {
            buf[i] = SIGMA[(r % SIGMA.len() as u64) as usize];
            r /= SIGMA.len() as u64;
        }
        n
    }
    /// self-test of the reference model on the round-trip cases (machinery, not verdict)
    pub fn selftest(&self) -> Vec<String> {
        let mut bad = vec![];
        for s in &self.structured {
            if !matches!(s, Spec::Round { suffix: 0 | 1, .. }) {
                continue;
            }
            let c = self.materialise(*s);
            if let Some((m, flen)) = &c.want {
                match ref_decode(c.d, &c.bytes) {
                    Ref::Frame { flen: f, body: Body::Well { msg, dup_keys: false } } if f == *flen && same_msg(&msg, m) => {}
                    other => bad.push(format!(
                        "reference decoder disagrees with harness encoder on {}: {}",
                        vcore::util::trunc(&format!("{:?}", m), 80),
                        vcore::util::trunc(&format!("{:?}", other), 120)
                    )),
                }
            }
        }
        bad
    }
}

struct Fast {
    // [decoder][class]
    outcome: [[u64; 4]; 2],
    refc: [u64; 5],
    distinct: HashSet<(u8, u8, u32)>,
    msgs: HashSet<u64>,
    sample_seen: [[u8; 4]; 2],
}

fn class_ix(o: &Outcome) -> usize {
    match o {
        Outcome::Msg(..) => 0,
        Outcome::NeedMore(_) => 1,
        Outcome::Err(..) => 2,
        Outcome::Panic(_) => 3,
    }
}

const CLASS: [&str; 4] = ["message", "need_more", "error", "panic"];
const REFC: [&str; 5] = ["need_more", "bad_length", "frame_wellformed", "frame_illformed", "frame_unknown_type"];

impl C27 {
    fn eval_one(&self, idx: u64, d: Decoder, input: &[u8], want: Option<&(RefMsg, usize)>, origin: &str, f: &mut Fast, acc: &mut ChunkOut) {
        let out = run_real(d, input);
        let di = d as usize;
        let ci = class_ix(&out);
        f.outcome[di][ci] += 1;
        let consumed = out.rest().map(|r| input.len() as i64 - r.len() as i64).unwrap_or(-1);
        f.distinct.insert((di as u8, ci as u8, consumed as u32));
        if let Outcome::Msg(m, _) = &out {
            f.msgs.insert(vcore::util::hash64(format!("{:?}", m).as_bytes()));
        }
        let ri = match ref_decode(d, input) {
            Ref::NeedMore => 0,
            Ref::BadLength { .. } => 1,
            Ref::Frame { body: Body::Well { .. }, .. } => 2,
            Ref::Frame { body: Body::Ill(_), .. } => 3,
            Ref::Frame { body: Body::UnknownType, .. } => 4,
        };
        f.refc[ri] += 1;
        if f.sample_seen[di][ci] < 1 && input.len() >= 4 {
            f.sample_seen[di][ci] += 1;
            acc.samples.push(json!({"key": format!("{}.{}", d.name(), CLASS[ci]), "decoder": d.name(), "hex": hex_short(input), "observed": out.brief(input.len())}));
        }
        let w = want.map(|(m, n)| (m, *n));
        if let Some(what) = judge(d, input, w, &out) {
            // R3: a failing case is re-executed twice from scratch before it is reported
            let again1 = run_real(d, input);
            let again2 = run_real(d, input);
            if again1 != out || again2 != out {
                acc.machinery.push(format!("case {} ({} {}) is not deterministic: {:?} / {:?} / {:?}", idx, d.name(), hex_short(input), out.brief(input.len()), again1.brief(input.len()), again2.brief(input.len())));
                return;
            }
            let what = format!("{} decode of {}: {}", d.name(), hex_short(input), what);
            acc.viol(idx, features(d, input), what, case_json(d, input, want, origin));
        }
    }
}

impl Space for C27 {
    fn total(&self) -> u64 {
        2 * self.n_strings() + self.structured.len() as u64
    }
    fn chunk(&self) -> u64 {
        (2 * self.n_strings() / 320).max(50_000)
    }
    /// space (a) in ≤ 320 equal ranges of ≥ 50k cases, the structured cases in 16 ranges
    fn ranges(&self) -> Vec<(u64, u64)> {
        let a_end = 2 * self.n_strings();
        let mut out = vec![];
        let mut a = 0;
        let chunk = self.chunk();
        while a < a_end {
            let b = (a + chunk).min(a_end);
            out.push((a, b));
            a = b;
        }
        let total = self.total();
        let chunk = ((total - a_end) / 16).max(1);
        while a < total {
            let b = (a + chunk).min(total);
            out.push((a, b));
            a = b;
        }
        out
    }
    fn case_deadline(&self) -> Duration {
        Duration::from_secs(10)
    }
    fn run(&self, from: u64, to: u64, p: &Progress) -> ChunkOut {
        let mut acc = ChunkOut::default();
        let mut f = Fast { outcome: [[0; 4]; 2], refc: [0; 5], distinct: HashSet::new(), msgs: HashSet::new(), sample_seen: [[0; 4]; 2] };
        let a_end = 2 * self.n_strings();
        let mut buf = [0u8; 16];
        let mut n_a = 0u64;
        let mut n_s: BTreeMap<&'static str, u64> = BTreeMap::new();
        for idx in from..to {
            p.begin(idx);
            if idx < a_end {
                let n = self.string(idx / 2, &mut buf);
                let d = if idx % 2 == 0 { Decoder::Regular } else { Decoder::Startup };
                let input = buf[..n].to_vec();
                self.eval_one(idx, d, &input, None, "a:all byte strings over sigma", &mut f, &mut acc);
                n_a += 1;
            } else {
                let c = self.materialise(self.structured[(idx - a_end) as usize]);
                self.eval_one(idx, c.d, &c.bytes, c.want.as_ref(), c.origin, &mut f, &mut acc);
                *n_s.entry(c.origin).or_insert(0) += 1;
            }
            acc.evaluated += 1;
        }
        acc.count("space.a:all byte strings over sigma (x2 decoders)", n_a);
        for (k, v) in n_s {
            acc.count(&format!("space.{}", k), v);
        }
        for (di, dn) in ["regular", "startup"].iter().enumerate() {
            for ci in 0..4 {
                acc.count(&format!("observed.{}.{}", dn, CLASS[ci]), f.outcome[di][ci]);
            }
        }
        for (i, n) in REFC.iter().enumerate() {
            acc.count(&format!("reference.{}", n), f.refc[i]);
        }
        for (d, c, n) in &f.distinct {
            acc.distinct.insert(format!("{}:{}:consumed={}", if *d == 0 { "regular" } else { "startup" }, CLASS[*c as usize], *n as i32));
        }
        for m in &f.msgs {
            acc.distinct.insert(format!("msg:{:016x}", m));
        }
        acc
    }
    fn describe(&self, idx: u64) -> (Vec<(String, String)>, Value) {
        let a_end = 2 * self.n_strings();
        if idx < a_end {
            let mut buf = [0u8; 16];
            let n = self.string(idx / 2, &mut buf);
            let d = if idx % 2 == 0 { Decoder::Regular } else { Decoder::Startup };
            (features(d, &buf[..n]), case_json(d, &buf[..n], None, "a:all byte strings over sigma"))
        } else {
            let c = self.materialise(self.structured[(idx - a_end) as usize]);
            (features(c.d, &c.bytes), case_json(c.d, &c.bytes, c.want.as_ref(), c.origin))
        }
    }
}

pub fn replay(case: &Value) -> i32 {
    let d = match case["decoder"].as_str() {
        Some("regular") => Decoder::Regular,
        Some("startup") => Decoder::Startup,
        _ => {
            eprintln!("bad replay file: decoder");
            return 2;
        }
    };
    let Some(input) = case["hex"].as_str().and_then(pgref::unhex) else {
        eprintln!("bad replay file: hex");
        return 2;
    };
    let want: Option<(RefMsg, usize)> = case.get("encoded_from").filter(|v| !v.is_null()).and_then(|v| {
        let m: RefMsg = serde_json::from_value(v["message"].clone()).ok()?;
        Some((m, v["frame_len"].as_u64()? as usize))
    });
    println!("decoder : {}", d.name());
    println!("input   : {} ({} bytes)", hex_short(&input), input.len());
    println!("features: {:?}", features(d, &input));
    println!("protocol: {}", vcore::util::trunc(&format!("{:?}", ref_decode(d, &input)), 300));
    let out = run_real(d, &input);
    println!("observed: {}", out.brief(input.len()));
    match judge(d, &input, want.as_ref().map(|(m, n)| (m, *n)), &out) {
        Some(w) => println!("verdict : VIOLATES C27 — {}", w),
        None => println!("verdict : holds"),
    }
    0
}
