//! C28 — backend messages are well-formed frames (DESIGN §5 C28).
//!
//! Space: every `BackendMessage` variant × field menus (strings "", "a", "é", 255 / 256 bytes,
//! 64 KiB; 0…3 fields / values; NULL, empty and NUL-containing binary values; every
//! `TransactionStatus`; error-field maps of 0…3 entries). No string carries an interior NUL (a
//! C-string cannot, and SQL text cannot produce one).
//! Oracle: `pgref::parse_backend`, an independent parser written from the protocol documentation:
//! the encoder's output is exactly one frame, its length field equals the number of bytes after the
//! type byte, and the re-parsed fields equal the inputs.

use std::collections::HashMap;
use std::panic::{catch_unwind, AssertUnwindSafe};
use std::time::Duration;

use bytes::BytesMut;
use serde::{Deserialize, Serialize};
use serde_json::{json, Value};

use crate::iso::{ChunkOut, Progress, Space};
use crate::messages::{BackendMessage, FieldDescription, TransactionStatus};
use crate::pgref::{self, hex_short, BField, BMsg};

/// A string given as `unit` repeated `n` times (keeps replay files small).
#[derive(Debug, Clone, PartialEq, Eq, Serialize, Deserialize)]
pub struct S {
    pub u: String,
    pub n: usize,
}

impl S {
    fn new(u: &str, n: usize) -> S {
        S { u: u.to_string(), n }
    }
    pub fn get(&self) -> String {
        self.u.repeat(self.n)
    }
    fn len(&self) -> usize {
        self.u.len() * self.n
    }
    fn class(&self) -> &'static str {
        let l = self.len();
        let ascii = self.u.is_ascii();
        match l {
            0 => "empty",
            1..=254 => {
                if ascii {
                    "short"
                } else {
                    "short_nonascii"
                }
            }
            255 => "255",
            256 => "256",
            257..=32767 => "mid",
            32768..=65534 => "32k",
            65535 => "65535",
            65536 => "64k",
            _ => "huge",
        }
    }
}

#[derive(Debug, Clone, PartialEq, Eq, Serialize, Deserialize)]
pub struct FieldSpec {
    pub name: S,
    pub table_oid: i32,
    pub attr: i16,
    pub type_oid: i32,
    pub size: i16,
    pub modifier: i32,
    pub format: i16,
}

/// A column value: NULL or `unit` (hex) repeated n times.
#[derive(Debug, Clone, PartialEq, Eq, Serialize, Deserialize)]
pub struct V {
    pub null: bool,
    pub hex: String,
    pub n: usize,
}

impl V {
    fn get(&self) -> Option<Vec<u8>> {
        if self.null {
            None
        } else {
            Some(pgref::unhex(&self.hex).unwrap_or_default().repeat(self.n))
        }
    }
    /// coarse size class (signature feature); rank orders the classes
    fn class(&self) -> (u8, &'static str) {
        if self.null {
            return (0, "null");
        }
        match self.hex.len() / 2 * self.n {
            0 => (1, "empty"),
            1..=254 => (2, "short"),
            255 => (3, "255"),
            256 => (4, "256"),
            _ => (5, "big"),
        }
    }
}

#[derive(Debug, Clone, PartialEq, Eq, Serialize, Deserialize)]
pub enum MsgSpec {
    AuthenticationOk,
    AuthenticationCleartextPassword,
    AuthenticationMD5Password { salt: [u8; 4] },
    ParameterStatus { name: S, value: S },
    BackendKeyData { process_id: i32, secret_key: i32 },
    ReadyForQuery { status: char },
    RowDescription { fields: Vec<FieldSpec> },
    DataRow { values: Vec<V> },
    CommandComplete { tag: S },
    ErrorResponse { fields: Vec<(u8, S)> },
    NoticeResponse { fields: Vec<(u8, S)> },
    EmptyQueryResponse,
}

impl MsgSpec {
    pub fn variant(&self) -> &'static str {
        match self {
            MsgSpec::AuthenticationOk => "AuthenticationOk",
            MsgSpec::AuthenticationCleartextPassword => "AuthenticationCleartextPassword",
            MsgSpec::AuthenticationMD5Password { .. } => "AuthenticationMD5Password",
            MsgSpec::ParameterStatus { .. } => "ParameterStatus",
            MsgSpec::BackendKeyData { .. } => "BackendKeyData",
            MsgSpec::ReadyForQuery { .. } => "ReadyForQuery",
            MsgSpec::RowDescription { .. } => "RowDescription",
            MsgSpec::DataRow { .. } => "DataRow",
            MsgSpec::CommandComplete { .. } => "CommandComplete",
            MsgSpec::ErrorResponse { .. } => "ErrorResponse",
            MsgSpec::NoticeResponse { .. } => "NoticeResponse",
            MsgSpec::EmptyQueryResponse => "EmptyQueryResponse",
        }
    }

    /// the message handed to the code under test
    pub fn real(&self) -> BackendMessage {
        let map = |fs: &Vec<(u8, S)>| -> HashMap<u8, String> { fs.iter().map(|(c, s)| (*c, s.get())).collect() };
        match self {
            MsgSpec::AuthenticationOk => BackendMessage::AuthenticationOk,
            MsgSpec::AuthenticationCleartextPassword => BackendMessage::AuthenticationCleartextPassword,
            MsgSpec::AuthenticationMD5Password { salt } => BackendMessage::AuthenticationMD5Password { salt: *salt },
            MsgSpec::ParameterStatus { name, value } => BackendMessage::ParameterStatus { name: name.get(), value: value.get() },
            MsgSpec::BackendKeyData { process_id, secret_key } => BackendMessage::BackendKeyData { process_id: *process_id, secret_key: *secret_key },
            MsgSpec::ReadyForQuery { status } => BackendMessage::ReadyForQuery {
                status: match status {
                    'I' => TransactionStatus::Idle,
                    'T' => TransactionStatus::InTransaction,
                    _ => TransactionStatus::FailedTransaction,
                },
            },
            MsgSpec::RowDescription { fields } => BackendMessage::RowDescription {
                fields: fields
                    .iter()
                    .map(|f| FieldDescription {
                        name: f.name.get(),
                        table_oid: f.table_oid,
                        column_attr_number: f.attr,
                        data_type_oid: f.type_oid,
                        data_type_size: f.size,
                        type_modifier: f.modifier,
                        format_code: f.format,
                    })
                    .collect(),
            },
            MsgSpec::DataRow { values } => BackendMessage::DataRow { values: values.iter().map(|v| v.get()).collect() },
            MsgSpec::CommandComplete { tag } => BackendMessage::CommandComplete { tag: tag.get() },
            MsgSpec::ErrorResponse { fields } => BackendMessage::ErrorResponse { fields: map(fields) },
            MsgSpec::NoticeResponse { fields } => BackendMessage::NoticeResponse { fields: map(fields) },
            MsgSpec::EmptyQueryResponse => BackendMessage::EmptyQueryResponse,
        }
    }

    /// what an independent parser must recover (by the protocol's definition of each message)
    pub fn expected(&self) -> BMsg {
        let fs = |fs: &Vec<(u8, S)>| -> Vec<(u8, Vec<u8>)> {
            let mut v: Vec<(u8, Vec<u8>)> = fs.iter().map(|(c, s)| (*c, s.get().into_bytes())).collect();
            v.sort();
            v
        };
        match self {
            MsgSpec::AuthenticationOk => BMsg::AuthOk,
            MsgSpec::AuthenticationCleartextPassword => BMsg::AuthCleartext,
            MsgSpec::AuthenticationMD5Password { salt } => BMsg::AuthMd5(*salt),
            MsgSpec::ParameterStatus { name, value } => BMsg::ParameterStatus(name.get().into_bytes(), value.get().into_bytes()),
            MsgSpec::BackendKeyData { process_id, secret_key } => BMsg::BackendKeyData(*process_id, *secret_key),
            MsgSpec::ReadyForQuery { status } => BMsg::ReadyForQuery(*status as u8),
            MsgSpec::RowDescription { fields } => BMsg::RowDescription(
                fields
                    .iter()
                    .map(|f| BField { name: f.name.get().into_bytes(), table_oid: f.table_oid, attr: f.attr, type_oid: f.type_oid, size: f.size, modifier: f.modifier, format: f.format })
                    .collect(),
            ),
            MsgSpec::DataRow { values } => BMsg::DataRow(values.iter().map(|v| v.get()).collect()),
            MsgSpec::CommandComplete { tag } => BMsg::CommandComplete(tag.get().into_bytes()),
            MsgSpec::ErrorResponse { fields } => BMsg::ErrorResponse(fs(fields)),
            MsgSpec::NoticeResponse { fields } => BMsg::NoticeResponse(fs(fields)),
            MsgSpec::EmptyQueryResponse => BMsg::EmptyQueryResponse,
        }
    }

    /// signature features (input only): variant, number of repeated members, class of the longest string
    pub fn features(&self) -> Vec<(String, String)> {
        let n_class = |n: usize| match n {
            0 => "0".to_string(),
            1 => "1".to_string(),
            2 => "2".to_string(),
            _ => "3+".to_string(),
        };
        let longest = |ss: Vec<&S>| -> String {
            ss.into_iter().max_by_key(|s| s.len()).map(|s| s.class().to_string()).unwrap_or_else(|| "n/a".into())
        };
        let (n, s) = match self {
            MsgSpec::ParameterStatus { name, value } => ("n/a".to_string(), longest(vec![name, value])),
            MsgSpec::RowDescription { fields } => (n_class(fields.len()), longest(fields.iter().map(|f| &f.name).collect())),
            MsgSpec::DataRow { values } => {
                // class of the largest value (NULL < empty < short < 255 < 256 < big)
                let c = values.iter().map(|v| v.class()).max().map(|(_, n)| n.to_string()).unwrap_or_else(|| "n/a".into());
                (n_class(values.len()), c)
            }
            MsgSpec::CommandComplete { tag } => ("n/a".to_string(), longest(vec![tag])),
            MsgSpec::ErrorResponse { fields } | MsgSpec::NoticeResponse { fields } => (n_class(fields.len()), longest(fields.iter().map(|(_, s)| s).collect())),
            _ => ("n/a".to_string(), "n/a".to_string()),
        };
        vec![("variant".into(), self.variant().into()), ("members".into(), n), ("content".into(), s)]
    }
}

pub enum Obs {
    Panic(String),
    Bytes(Vec<u8>),
}

pub fn run_real(spec: &MsgSpec) -> Obs {
    let m = spec.real();
    let mut buf = BytesMut::new();
    match catch_unwind(AssertUnwindSafe(|| m.encode(&mut buf))) {
        Ok(()) => Obs::Bytes(buf.to_vec()),
        Err(p) => Obs::Panic(vcore::exec::panic_msg(p)),
    }
}

pub fn judge(spec: &MsgSpec, obs: &Obs) -> Option<String> {
    match obs {
        Obs::Panic(m) => Some(format!("encode panicked: {}", vcore::util::trunc(m, 200))),
        Obs::Bytes(b) => match pgref::parse_backend(b) {
            Err(e) => Some(format!("encoded bytes {} are not exactly one well-formed frame: {}", hex_short(b), e)),
            Ok(got) => {
                let want = spec.expected();
                if got != want {
                    Some(format!(
                        "independent parser recovered {} but the message was {}",
                        vcore::util::trunc(&format!("{:?}", got), 200),
                        vcore::util::trunc(&format!("{:?}", want), 200)
                    ))
                } else {
                    None
                }
            }
        },
    }
}

pub struct C28 {
    pub specs: Vec<MsgSpec>,
}

fn seqs<T: Clone>(menu: &[T], max: usize) -> Vec<Vec<T>> {
    let mut out = vec![];
    for k in 0..=max {
        for ix in vcore::util::sequences(menu.len(), k) {
            out.push(ix.iter().map(|&i| menu[i].clone()).collect());
        }
    }
    out
}

impl C28 {
    pub fn new(tier: &str) -> C28 {
        let thorough = tier == "thorough";
        let mut strings = vec![S::new("", 0), S::new("a", 1), S::new("é", 1), S::new("a", 255), S::new("a", 256), S::new("é", 128), S::new("a", 65536)];
        if thorough {
            strings.extend([S::new("a", 32767), S::new("a", 32768), S::new("a", 65535), S::new("€", 21846), S::new("SELECT 1", 1), S::new("q", 1 << 20)]);
        }
        let mut specs = vec![MsgSpec::AuthenticationOk, MsgSpec::AuthenticationCleartextPassword, MsgSpec::EmptyQueryResponse];
        for salt in [[0u8; 4], [1, 2, 3, 4], [0xFF; 4], [0, b'a', 0, b'b']] {
            specs.push(MsgSpec::AuthenticationMD5Password { salt });
        }
        for st in ['I', 'T', 'E'] {
            specs.push(MsgSpec::ReadyForQuery { status: st });
        }
        let ints = [0, 1, -1, i32::MAX, i32::MIN, 0x0102_0304];
        for &p in &ints {
            for &k in &ints {
                specs.push(MsgSpec::BackendKeyData { process_id: p, secret_key: k });
            }
        }
        for n in &strings {
            for v in &strings {
                specs.push(MsgSpec::ParameterStatus { name: n.clone(), value: v.clone() });
            }
        }
        for t in strings.iter().chain([S::new("SELECT 1", 1), S::new("INSERT 0 1", 1)].iter()) {
            specs.push(MsgSpec::CommandComplete { tag: t.clone() });
        }
        // RowDescription: 0…3 fields over names × numeric profiles
        let profiles: Vec<(i32, i16, i32, i16, i32, i16)> = if thorough {
            vec![(0, 0, 0, 0, 0, 0), (16384, 1, 23, 4, -1, 0), (i32::MIN, i16::MIN, i32::MAX, i16::MAX, -1, 1), (-1, -1, -1, -1, i32::MIN, i16::MAX)]
        } else {
            vec![(0, 0, 0, 0, 0, 0), (16384, 1, 23, 4, -1, 0), (i32::MIN, i16::MIN, i32::MAX, i16::MAX, -1, 1)]
        };
        let field_names: Vec<S> = if thorough { strings[..10].to_vec() } else { strings.clone() };
        let mut fmenu = vec![];
        for n in &field_names {
            for p in &profiles {
                fmenu.push(FieldSpec { name: n.clone(), table_oid: p.0, attr: p.1, type_oid: p.2, size: p.3, modifier: p.4, format: p.5 });
            }
        }
        for fs in seqs(&fmenu, 3) {
            specs.push(MsgSpec::RowDescription { fields: fs });
        }
        // DataRow: 0…3 (thorough 0…4) values
        let v = |hex: &str, n: usize| V { null: false, hex: hex.into(), n };
        let mut vmenu = vec![V { null: true, hex: "".into(), n: 0 }, v("", 0), v("61", 1), v("00", 1), v("c3a9", 1), v("61", 255), v("61", 256), v("61", 65536), v("ff00ff", 1)];
        if thorough {
            vmenu.extend([v("61", 65535), v("00", 300)]);
        }
        for vs in seqs(&vmenu, if thorough { 4 } else { 3 }) {
            specs.push(MsgSpec::DataRow { values: vs });
        }
        if thorough {
            // wide rows (still far below the i16 column-count limit)
            for n in [100usize, 1600, 32767] {
                specs.push(MsgSpec::DataRow { values: (0..n).map(|i| if i % 3 == 0 { V { null: true, hex: "".into(), n: 0 } } else { v("31", i % 5) }).collect() });
                specs.push(MsgSpec::RowDescription {
                    fields: (0..n).map(|i| FieldSpec { name: S::new("c", 1 + i % 3), table_oid: 0, attr: i as i16, type_oid: 23, size: 4, modifier: -1, format: 0 }).collect(),
                });
            }
        }
        // Error / Notice: maps of 0…3 entries (distinct codes) × value menu
        let codes: &[u8] = if thorough { &[b'S', b'C', b'M', b'D', 0xFF] } else { &[b'S', b'C', b'M', b'V'] };
        let evals: Vec<S> = if thorough { strings[..10].to_vec() } else { strings.clone() };
        let mut maps: Vec<Vec<(u8, S)>> = vec![vec![]];
        for k in 1..=3usize {
            // code subsets of size k (ascending), each with every value assignment
            let subsets: Vec<Vec<usize>> = vcore::util::multisets(codes.len(), k).into_iter().filter(|s| s.windows(2).all(|w| w[0] != w[1])).collect();
            for sub in subsets {
                for vals in vcore::util::sequences(evals.len(), k) {
                    maps.push(sub.iter().zip(vals.iter()).map(|(&c, &vi)| (codes[c], evals[vi].clone())).collect());
                }
            }
        }
        for m in &maps {
            specs.push(MsgSpec::ErrorResponse { fields: m.clone() });
        }
        for m in &maps {
            specs.push(MsgSpec::NoticeResponse { fields: m.clone() });
        }
        C28 { specs }
    }
}

fn case_json(spec: &MsgSpec) -> Value {
    json!({"kind": "encode", "message": spec})
}

impl Space for C28 {
    fn total(&self) -> u64 {
        self.specs.len() as u64
    }
    fn chunk(&self) -> u64 {
        (self.total() / 48).max(200)
    }
    fn case_deadline(&self) -> Duration {
        Duration::from_secs(20)
    }
    fn run(&self, from: u64, to: u64, p: &Progress) -> ChunkOut {
        let mut acc = ChunkOut::default();
        let mut bytes_total = 0u64;
        let mut seen_variant: Vec<&'static str> = vec![];
        for idx in from..to {
            p.begin(idx);
            let spec = &self.specs[idx as usize];
            let obs = run_real(spec);
            acc.evaluated += 1;
            acc.count(&format!("variant.{}", spec.variant()), 1);
            match &obs {
                Obs::Panic(_) => acc.count("observed.panic", 1),
                Obs::Bytes(b) => {
                    bytes_total += b.len() as u64;
                    acc.distinct.insert(format!("{:032x}", vcore::util::hash128(b)));
                    if pgref::parse_backend(b).is_ok() {
                        acc.count("observed.parsed_as_one_frame", 1);
                    } else {
                        acc.count("observed.not_one_frame", 1);
                    }
                    if !seen_variant.contains(&spec.variant()) && b.len() <= 64 && acc.samples.len() < 4 {
                        seen_variant.push(spec.variant());
                        acc.samples.push(json!({"message": vcore::util::trunc(&format!("{:?}", spec), 160), "encoded_hex": pgref::hex(b)}));
                    }
                }
            }
            if let Some(what) = judge(spec, &obs) {
                // R3: re-execute twice. ErrorResponse field order follows HashMap iteration order, so
                // the bytes may differ between runs; the verdict (as a string) must not.
                let w1 = judge(spec, &run_real(spec));
                let w2 = judge(spec, &run_real(spec));
                if w1.is_none() || w2.is_none() {
                    acc.machinery.push(format!("case {} ({}) is not deterministic: violation not reproduced on re-execution", idx, vcore::util::trunc(&format!("{:?}", spec), 200)));
                    continue;
                }
                acc.viol(idx, spec.features(), format!("{}: {}", vcore::util::trunc(&format!("{:?}", spec), 240), what), case_json(spec));
            }
        }
        acc.count("encoded_bytes_total", bytes_total);
        acc
    }
    fn describe(&self, idx: u64) -> (Vec<(String, String)>, Value) {
        let s = &self.specs[idx as usize];
        (s.features(), case_json(s))
    }
}

pub fn replay(case: &Value) -> i32 {
    let spec: MsgSpec = match serde_json::from_value(case["message"].clone()) {
        Ok(s) => s,
        Err(e) => {
            eprintln!("bad replay file: message: {}", e);
            return 2;
        }
    };
    println!("message : {}", vcore::util::trunc(&format!("{:?}", spec), 400));
    println!("features: {:?}", spec.features());
    let obs = run_real(&spec);
    match &obs {
        Obs::Panic(m) => println!("observed: PANIC {}", m),
        Obs::Bytes(b) => {
            println!("observed: {} bytes {}", b.len(), hex_short(b));
            println!("parsed  : {}", vcore::util::trunc(&format!("{:?}", pgref::parse_backend(b)), 400));
        }
    }
    println!("expected: {}", vcore::util::trunc(&format!("{:?}", spec.expected()), 400));
    match judge(&spec, &obs) {
        Some(w) => println!("verdict : VIOLATES C28 — {}", w),
        None => println!("verdict : holds"),
    }
    0
}
