//! srvcheck — checks C27, C28, C29 on the server's wire-protocol and password modules.
//!
//! The server is a binary crate with a heavy dependency tree (tokio, rustls, OpenTelemetry/tonic),
//! so the two files under test are compiled *from /repo's working tree* by absolute `#[path]`
//! inclusion: any edit there is compiled into this binary by the next `cargo build`. Neither file
//! refers to `crate::…`; should one ever do so the build fails (exit 2), never a verdict.
//!
//! CLI:  srvcheck check <C27|C28|C29> <quick|thorough>
//!       srvcheck replay <path>
//!       srvcheck worker <id> <tier> <from> <to> <fast|mark>     (internal: child process per range)

#[allow(dead_code)]
#[path = "/repo/crates/vibesql-server/src/protocol/messages.rs"]
mod messages;
#[allow(dead_code)]
#[path = "/repo/crates/vibesql-server/src/auth/password.rs"]
mod password;

mod c27;
mod c28;
mod c29;
mod iso;
mod pgref;

use std::time::Duration;

use serde_json::json;
use vcore::report::Report;

fn usage() -> ! {
    eprintln!("usage: srvcheck check <C27|C28|C29> <quick|thorough> | srvcheck replay <path>");
    std::process::exit(2)
}

fn space(id: &str, tier: &str) -> Option<Box<dyn iso::Space>> {
    match id {
        "C27" => Some(Box::new(c27::C27::new(tier))),
        "C28" => Some(Box::new(c28::C28::new(tier))),
        "C29" => Some(Box::new(c29::C29::new(tier))),
        _ => None,
    }
}

fn check(id: &str, tier: &str) -> i32 {
    let mut rep = Report::new(id, tier, "exploration");
    let budget = Duration::from_secs(if tier == "thorough" { 900 } else { 55 });
    match id {
        "C27" => {
            let sp = c27::C27::new(tier);
            for m in sp.selftest() {
                rep.machinery_error(m);
            }
            rep.set(
                "rule",
                json!("cases: every byte string of length <= max_len over the 13-symbol alphabet (shortest first, lexicographic), each through decode and decode_startup, plus the full products type x declared-length x payload x trailing bytes (regular), declared-length x body x trailing (startup) and well-formed message x suffix (round trip); a case is non-trivial/distinct by its observation: distinct_nontrivial = number of distinct (decoder, outcome class, bytes consumed) triples plus distinct decoded messages seen in this run. oracle, for every input: no panic; outcome in {message, need-more, error}; buffer remainder is a suffix of the input; need-more consumes 0 bytes; never more bytes consumed than the declared frame; a message is yielded only from a complete frame with a legal length and consumes exactly 1+len (regular) / len (startup) bytes; a complete well-formed frame decodes to the message it encodes (reference decoder written from the PostgreSQL v3 framing rules); decode(encode(m)++suffix) = (m, suffix)"),
            );
            rep.set(
                "bounds",
                json!({"alphabet_hex": c27::SIGMA.iter().map(|b| format!("{:02x}", b)).collect::<Vec<_>>(), "max_len": sp.max_len, "byte_strings": sp.n_strings(), "decoders": 2, "structured_cases": sp.structured.len()}),
            );
            rep.assume("usize is 64 bits and the harness is built with overflow-checks=false (release profile, as shipped): `1 + len` wraps instead of panicking");
            rep.assume("error texts and error kinds are not compared; an error is acceptable for every input that is not a complete well-formed frame");
            iso::drive(&sp, &mut rep, budget);
        }
        "C28" => {
            let sp = c28::C28::new(tier);
            rep.set(
                "rule",
                json!("cases: every BackendMessage variant x the full product of its field menus (strings by length class incl. 255/256/64KiB and non-ASCII, 0..3 fields/values, NULL/empty/binary values, all transaction statuses, error-field maps of 0..3 entries); distinct_nontrivial = number of distinct encoded byte strings produced (128-bit hash) in this run. oracle, for every message: encode does not panic; the bytes are exactly one frame (type byte, i32 length = number of bytes after the type byte >= 4); an independent parser written from the protocol documentation consumes the body exactly and recovers fields equal to the inputs (error/notice fields compared as sets)"),
            );
            rep.assume("strings carry no interior NUL (a C-string cannot; SQL text cannot produce one); at most 32767 columns per row");
            iso::drive(&sp, &mut rep, budget);
        }
        "C29" => {
            for m in c29::selftest() {
                rep.machinery_error(m);
            }
            let sp = c29::C29::new(tier);
            rep.set(
                "rule",
                json!("cases: full product stores (user x password x storage kind, each with a decoy user) x presented user (same, decoy, unknown, case-flipped, trailing space) x response menu (correct, every single-character edit of it, prefix variants, other salts/users answers, ...) x salts; distinct_nontrivial = number of distinct (mode, stored kind of the presented user, user relation, response class, observed verdict) tuples seen in this run. oracle: verify_cleartext(u,p) accepts <=> u is stored with an Argon2 secret created from exactly p; verify_md5(u,r,salt) accepts <=> u is stored as {MD5}pw and r == \"md5\"+hex(md5(hex(md5(pw||u))||salt)) (computed with the md-5 crate independently of compute_md5_password, cross-checked against hashlib vectors); no panic"),
            );
            rep.set("argon2_verifications_planned", json!(sp.argon2_verifications()));
            rep.assume("Argon2 salts are random (OsRng): only the accept/reject verdict is observed");
            iso::drive(&sp, &mut rep, budget);
        }
        _ => {
            eprintln!("srvcheck handles C27, C28, C29 (got {})", id);
            return 2;
        }
    }
    rep.finish()
}

fn replay(path: &str) -> i32 {
    let text = match std::fs::read_to_string(path) {
        Ok(t) => t,
        Err(e) => {
            eprintln!("cannot read {}: {}", path, e);
            return 2;
        }
    };
    let v: serde_json::Value = match serde_json::from_str(&text) {
        Ok(v) => v,
        Err(e) => {
            eprintln!("bad replay file: {}", e);
            return 2;
        }
    };
    println!("property: {}", v["property"]);
    println!("recorded: {}", vcore::util::trunc(v["what"].as_str().unwrap_or(""), 600));
    let case = &v["case"];
    match case["kind"].as_str() {
        Some("decode") => c27::replay(case),
        Some("encode") => c28::replay(case),
        Some("auth") => c29::replay(case),
        k => {
            eprintln!("bad replay file: unknown case kind {:?}", k);
            2
        }
    }
}

fn main() {
    let args: Vec<String> = std::env::args().collect();
    if args.len() < 2 {
        usage();
    }
    vcore::exec::silence_panics();
    let code = match args[1].as_str() {
        "check" if args.len() >= 4 => check(&args[2], &args[3]),
        "replay" if args.len() >= 3 => replay(&args[2]),
        "worker" if args.len() >= 7 => {
            let (Ok(from), Ok(to)) = (args[4].parse::<u64>(), args[5].parse::<u64>()) else { usage() };
            match space(&args[2], &args[3]) {
                Some(sp) => iso::worker_main(sp.as_ref(), from, to, args[6] == "mark"),
                None => 2,
            }
        }
        _ => usage(),
    };
    std::process::exit(code);
}
