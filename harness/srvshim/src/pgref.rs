//! Reference model of the PostgreSQL v3 wire format, written from the protocol documentation
//! ("Message Formats"), independent of the code under test:
//!
//! * `ref_decode`  — what a frontend byte buffer *is* (C27 oracle),
//! * `encode_frontend` — canonical encoding of a well-formed frontend message (C27 round trip),
//! * `parse_backend` — independent parser for backend frames (C28 oracle).
//!
//! Framing rules used (and nothing else):
//!   regular message  = type:u8  len:i32(be, counts itself, not the type byte)  body[len-4]
//!   startup packet   = len:i32(be, counts itself)  code:i32  body[len-8]
//!   a length smaller than the bytes it must cover (4 resp. 8) is not a frame.

use serde::{Deserialize, Serialize};

#[derive(Debug, Clone, Copy, PartialEq, Eq, Hash, PartialOrd, Ord, Serialize, Deserialize)]
pub enum Decoder {
    #[serde(rename = "regular")]
    Regular,
    #[serde(rename = "startup")]
    Startup,
}

impl Decoder {
    pub fn name(self) -> &'static str {
        match self {
            Decoder::Regular => "regular",
            Decoder::Startup => "startup",
        }
    }
    /// bytes of header needed before the declared length is known
    pub fn header(self) -> usize {
        match self {
            Decoder::Regular => 5,
            Decoder::Startup => 4,
        }
    }
    /// smallest legal value of the length field
    pub fn min_len(self) -> i64 {
        match self {
            Decoder::Regular => 4,
            Decoder::Startup => 8,
        }
    }
}

pub const SSL_REQUEST_CODE: i32 = 80877103;

/// A frontend message as the protocol defines it (harness-owned mirror of `FrontendMessage`).
#[derive(Debug, Clone, PartialEq, Eq, Serialize, Deserialize)]
pub enum RefMsg {
    Query(String),
    Password(String),
    Terminate,
    SSLRequest,
    /// params in wire order
    Startup { version: i32, params: Vec<(String, String)> },
    /// a variant of the real enum the harness does not know (never equal to a reference message)
    Other(String),
}

/// Why the body of a complete frame is not a well-formed message of its type.
#[derive(Debug, Clone, Copy, PartialEq, Eq)]
pub enum Ill {
    /// a C-string is not terminated inside the frame
    Unterminated,
    /// bytes remain inside the frame after the message ended
    ExtraInFrame,
    InvalidUtf8,
}

impl Ill {
    pub fn name(self) -> &'static str {
        match self {
            Ill::Unterminated => "unterminated",
            Ill::ExtraInFrame => "extra_in_frame",
            Ill::InvalidUtf8 => "invalid_utf8",
        }
    }
}

#[derive(Debug, Clone, PartialEq)]
pub enum Body {
    /// well-formed message; `dup_keys`: startup parameters repeat a key (content not compared)
    Well { msg: RefMsg, dup_keys: bool },
    Ill(Ill),
    /// regular message type other than Q / p / X
    UnknownType,
}

#[derive(Debug, Clone, PartialEq)]
pub enum Ref {
    /// header incomplete, or declared length legal but buffer shorter than the frame
    NeedMore,
    /// declared length below the protocol minimum (includes negative values)
    BadLength { declared: i64 },
    /// a complete frame of `flen` bytes starts the buffer
    Frame { flen: usize, body: Body },
}

pub fn declared_len(d: Decoder, input: &[u8]) -> Option<i64> {
    if input.len() < d.header() {
        return None;
    }
    let o = d.header() - 4;
    Some(i32::from_be_bytes([input[o], input[o + 1], input[o + 2], input[o + 3]]) as i64)
}

fn cstr_body(body: &[u8]) -> Result<String, Ill> {
    match body.iter().position(|&b| b == 0) {
        None => Err(Ill::Unterminated),
        Some(p) if p + 1 < body.len() => Err(Ill::ExtraInFrame),
        Some(p) => String::from_utf8(body[..p].to_vec()).map_err(|_| Ill::InvalidUtf8),
    }
}

fn startup_body(body: &[u8]) -> Result<(RefMsg, bool), Ill> {
    // body = code:i32 then (key\0 value\0)* \0, filling the frame exactly
    let code = i32::from_be_bytes([body[0], body[1], body[2], body[3]]);
    let rest = &body[4..];
    if code == SSL_REQUEST_CODE {
        return if rest.is_empty() { Ok((RefMsg::SSLRequest, false)) } else { Err(Ill::ExtraInFrame) };
    }
    let mut pos = 0usize;
    let mut raw: Vec<(Vec<u8>, Vec<u8>)> = vec![];
    let next = |pos: usize| -> Option<usize> { rest[pos..].iter().position(|&b| b == 0).map(|p| pos + p) };
    loop {
        let Some(kend) = next(pos) else { return Err(Ill::Unterminated) };
        let key = rest[pos..kend].to_vec();
        pos = kend + 1;
        if key.is_empty() {
            break;
        }
        let Some(vend) = next(pos) else { return Err(Ill::Unterminated) };
        raw.push((key, rest[pos..vend].to_vec()));
        pos = vend + 1;
    }
    if pos != rest.len() {
        return Err(Ill::ExtraInFrame);
    }
    let mut params = vec![];
    for (k, v) in raw {
        let k = String::from_utf8(k).map_err(|_| Ill::InvalidUtf8)?;
        let v = String::from_utf8(v).map_err(|_| Ill::InvalidUtf8)?;
        params.push((k, v));
    }
    let mut keys: Vec<&String> = params.iter().map(|(k, _)| k).collect();
    keys.sort();
    let n = keys.len();
    keys.dedup();
    let dup = keys.len() != n;
    Ok((RefMsg::Startup { version: code, params }, dup))
}

/// What the protocol says the buffer starts with.
pub fn ref_decode(d: Decoder, input: &[u8]) -> Ref {
    let Some(l) = declared_len(d, input) else { return Ref::NeedMore };
    if l < d.min_len() {
        return Ref::BadLength { declared: l };
    }
    let flen = match d {
        Decoder::Regular => 1 + l as usize,
        Decoder::Startup => l as usize,
    };
    if input.len() < flen {
        return Ref::NeedMore;
    }
    let frame = &input[..flen];
    let body = match d {
        Decoder::Regular => {
            let b = &frame[5..];
            match frame[0] {
                b'Q' => match cstr_body(b) {
                    Ok(s) => Body::Well { msg: RefMsg::Query(s), dup_keys: false },
                    Err(i) => Body::Ill(i),
                },
                b'p' => match cstr_body(b) {
                    Ok(s) => Body::Well { msg: RefMsg::Password(s), dup_keys: false },
                    Err(i) => Body::Ill(i),
                },
                b'X' => {
                    if b.is_empty() {
                        Body::Well { msg: RefMsg::Terminate, dup_keys: false }
                    } else {
                        Body::Ill(Ill::ExtraInFrame)
                    }
                }
                _ => Body::UnknownType,
            }
        }
        Decoder::Startup => match startup_body(&frame[4..]) {
            Ok((msg, dup_keys)) => Body::Well { msg, dup_keys },
            Err(i) => Body::Ill(i),
        },
    };
    Ref::Frame { flen, body }
}

fn put_cstr(out: &mut Vec<u8>, s: &str) {
    out.extend_from_slice(s.as_bytes());
    out.push(0);
}

/// Canonical encoding of a well-formed frontend message (strings must not contain NUL).
pub fn encode_frontend(m: &RefMsg) -> (Decoder, Vec<u8>) {
    match m {
        RefMsg::Query(s) | RefMsg::Password(s) => {
            let mut out = vec![if matches!(m, RefMsg::Query(_)) { b'Q' } else { b'p' }];
            out.extend_from_slice(&((4 + s.len() + 1) as i32).to_be_bytes());
            put_cstr(&mut out, s);
            (Decoder::Regular, out)
        }
        RefMsg::Terminate => (Decoder::Regular, vec![b'X', 0, 0, 0, 4]),
        RefMsg::SSLRequest => {
            let mut out = 8i32.to_be_bytes().to_vec();
            out.extend_from_slice(&SSL_REQUEST_CODE.to_be_bytes());
            (Decoder::Startup, out)
        }
        RefMsg::Startup { version, params } => {
            let mut body = version.to_be_bytes().to_vec();
            for (k, v) in params {
                put_cstr(&mut body, k);
                put_cstr(&mut body, v);
            }
            body.push(0);
            let mut out = ((4 + body.len()) as i32).to_be_bytes().to_vec();
            out.extend_from_slice(&body);
            (Decoder::Startup, out)
        }
        RefMsg::Other(_) => unreachable!("harness never encodes an unknown variant"),
    }
}

// ------------------------------------------------------------------------------------------------
// Backend side (C28)

/// A backend message as recovered from the wire by the independent parser. Strings are bytes:
/// the parser does not care about the text encoding.
#[derive(Debug, Clone, PartialEq, Eq)]
pub enum BMsg {
    AuthOk,
    AuthCleartext,
    AuthMd5([u8; 4]),
    ParameterStatus(Vec<u8>, Vec<u8>),
    BackendKeyData(i32, i32),
    ReadyForQuery(u8),
    RowDescription(Vec<BField>),
    DataRow(Vec<Option<Vec<u8>>>),
    CommandComplete(Vec<u8>),
    /// sorted by field code
    ErrorResponse(Vec<(u8, Vec<u8>)>),
    NoticeResponse(Vec<(u8, Vec<u8>)>),
    EmptyQueryResponse,
}

#[derive(Debug, Clone, PartialEq, Eq)]
pub struct BField {
    pub name: Vec<u8>,
    pub table_oid: i32,
    pub attr: i16,
    pub type_oid: i32,
    pub size: i16,
    pub modifier: i32,
    pub format: i16,
}

struct Cur<'a> {
    b: &'a [u8],
    p: usize,
}

impl<'a> Cur<'a> {
    fn take(&mut self, n: usize) -> Result<&'a [u8], String> {
        if self.b.len() - self.p < n {
            return Err(format!("body ends {} bytes early (wanted {} at offset {})", n - (self.b.len() - self.p), n, self.p));
        }
        let s = &self.b[self.p..self.p + n];
        self.p += n;
        Ok(s)
    }
    fn u8(&mut self) -> Result<u8, String> {
        Ok(self.take(1)?[0])
    }
    fn i16(&mut self) -> Result<i16, String> {
        let s = self.take(2)?;
        Ok(i16::from_be_bytes([s[0], s[1]]))
    }
    fn i32(&mut self) -> Result<i32, String> {
        let s = self.take(4)?;
        Ok(i32::from_be_bytes([s[0], s[1], s[2], s[3]]))
    }
    fn cstr(&mut self) -> Result<Vec<u8>, String> {
        match self.b[self.p..].iter().position(|&b| b == 0) {
            None => Err(format!("string at offset {} not terminated inside the frame", self.p)),
            Some(n) => {
                let s = self.b[self.p..self.p + n].to_vec();
                self.p += n + 1;
                Ok(s)
            }
        }
    }
    fn end(&self) -> Result<(), String> {
        if self.p != self.b.len() {
            return Err(format!("{} unread bytes remain inside the frame", self.b.len() - self.p));
        }
        Ok(())
    }
}

/// Parse `bytes` as exactly one backend frame. Errors describe the first deviation.
pub fn parse_backend(bytes: &[u8]) -> Result<BMsg, String> {
    if bytes.len() < 5 {
        return Err(format!("only {} bytes: no type byte + length field", bytes.len()));
    }
    let ty = bytes[0];
    let l = i32::from_be_bytes([bytes[1], bytes[2], bytes[3], bytes[4]]) as i64;
    let after_type = bytes.len() as i64 - 1;
    if l != after_type {
        return Err(format!("length field says {} but {} bytes follow the type byte", l, after_type));
    }
    if l < 4 {
        return Err(format!("length field {} < 4", l));
    }
    let mut c = Cur { b: &bytes[5..], p: 0 };
    let m = match ty {
        b'R' => match c.i32()? {
            0 => BMsg::AuthOk,
            3 => BMsg::AuthCleartext,
            5 => {
                let s = c.take(4)?;
                BMsg::AuthMd5([s[0], s[1], s[2], s[3]])
            }
            k => return Err(format!("authentication request code {} not expected", k)),
        },
        b'S' => {
            let n = c.cstr()?;
            let v = c.cstr()?;
            BMsg::ParameterStatus(n, v)
        }
        b'K' => BMsg::BackendKeyData(c.i32()?, c.i32()?),
        b'Z' => BMsg::ReadyForQuery(c.u8()?),
        b'T' => {
            let n = c.i16()?;
            if n < 0 {
                return Err(format!("negative field count {}", n));
            }
            let mut fs = vec![];
            for _ in 0..n {
                fs.push(BField {
                    name: c.cstr()?,
                    table_oid: c.i32()?,
                    attr: c.i16()?,
                    type_oid: c.i32()?,
                    size: c.i16()?,
                    modifier: c.i32()?,
                    format: c.i16()?,
                });
            }
            BMsg::RowDescription(fs)
        }
        b'D' => {
            let n = c.i16()?;
            if n < 0 {
                return Err(format!("negative column count {}", n));
            }
            let mut vs = vec![];
            for _ in 0..n {
                let l = c.i32()?;
                if l == -1 {
                    vs.push(None);
                } else if l < 0 {
                    return Err(format!("column length {}", l));
                } else {
                    vs.push(Some(c.take(l as usize)?.to_vec()));
                }
            }
            BMsg::DataRow(vs)
        }
        b'C' => BMsg::CommandComplete(c.cstr()?),
        b'E' | b'N' => {
            let mut fs = vec![];
            loop {
                let code = c.u8()?;
                if code == 0 {
                    break;
                }
                fs.push((code, c.cstr()?));
            }
            fs.sort();
            if ty == b'E' {
                BMsg::ErrorResponse(fs)
            } else {
                BMsg::NoticeResponse(fs)
            }
        }
        b'I' => BMsg::EmptyQueryResponse,
        t => return Err(format!("unknown backend message type 0x{:02x}", t)),
    };
    c.end()?;
    Ok(m)
}

pub fn hex(b: &[u8]) -> String {
    let mut s = String::with_capacity(b.len() * 2);
    for x in b {
        s.push_str(&format!("{:02x}", x));
    }
    s
}

pub fn unhex(s: &str) -> Option<Vec<u8>> {
    let s = s.trim();
    if s.len() % 2 != 0 {
        return None;
    }
    (0..s.len() / 2).map(|i| u8::from_str_radix(s.get(2 * i..2 * i + 2)?, 16).ok()).collect()
}

/// hex, shortened in the middle when long (for `what` texts and samples)
pub fn hex_short(b: &[u8]) -> String {
    if b.len() <= 48 {
        hex(b)
    } else {
        format!("{}..({} bytes)..{}", hex(&b[..24]), b.len(), hex(&b[b.len() - 8..]))
    }
}
