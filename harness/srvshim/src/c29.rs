//! C29 — password authentication accepts exactly the right credentials (DESIGN §5 C29).
//!
//! Space: users {"a","A","é","ab"} (+ an unknown user), passwords {"", "p", "P", "pé", "md5", 72 bytes}
//! stored as Argon2 (through `add_user`), as `{MD5}password`, as a bare string or as a malformed
//! `$argon2…` string (through `add_user_hashed`), always next to a decoy user with another password;
//! salts {00000000, 01020304, FFFFFFFF}; presented responses: the correct one, every single-character
//! edit of it (every position × delete / duplicate / case-flip / substitute), with / without / with a
//! doubled `md5` prefix, empty, the inner hash, the stored value, other users' / salts' answers.
//!
//! Oracle (reference, independent of `compute_md5_password`):
//!   cleartext accepted ⇔ the presented user has an Argon2 secret created from exactly that password;
//!   MD5 accepted ⇔ the presented user is stored as {MD5}pw and
//!                 response == "md5" + hex(md5(hex(md5(pw ‖ user)) ‖ salt));
//!   everything else is rejected. A panic is a violation.

use std::collections::HashMap;
use std::panic::{catch_unwind, AssertUnwindSafe};
use std::time::Duration;

use md5::{Digest, Md5};
use serde::{Deserialize, Serialize};
use serde_json::{json, Value};

use crate::iso::{ChunkOut, Progress, Space};
use crate::password::PasswordStore;
use crate::pgref::hex;

#[derive(Debug, Clone, Copy, PartialEq, Eq, Hash, Serialize, Deserialize)]
pub enum Kind {
    #[serde(rename = "argon2")]
    Argon2,
    #[serde(rename = "md5")]
    Md5,
    /// `add_user_hashed(user, password)`: neither `$argon2…` nor `{MD5}…`
    #[serde(rename = "plain")]
    Plain,
    /// `add_user_hashed(user, "$argon2id$" + password)`: looks like Argon2, is not a PHC string
    #[serde(rename = "malformed_argon2")]
    Malformed,
}

impl Kind {
    fn name(self) -> &'static str {
        match self {
            Kind::Argon2 => "argon2",
            Kind::Md5 => "md5",
            Kind::Plain => "plain",
            Kind::Malformed => "malformed_argon2",
        }
    }
}

#[derive(Debug, Clone, PartialEq, Eq, Hash, Serialize, Deserialize)]
pub struct Stored {
    pub user: String,
    pub kind: Kind,
    pub password: String,
}

#[derive(Debug, Clone, Copy, PartialEq, Eq, Serialize, Deserialize)]
pub enum Mode {
    #[serde(rename = "cleartext")]
    Cleartext,
    #[serde(rename = "md5")]
    Md5,
}

#[derive(Debug, Clone, Serialize, Deserialize)]
pub struct AuthCase {
    pub store: Vec<Stored>,
    pub mode: Mode,
    pub user: String,
    pub response: String,
    pub salt: [u8; 4],
    /// labels (features of the input, used for the signature only)
    pub user_rel: String,
    pub resp_class: String,
}

/// independent computation of PostgreSQL's MD5 response
pub fn ref_md5_response(password: &str, user: &str, salt: &[u8; 4]) -> String {
    let mut h = Md5::new();
    h.update([password.as_bytes(), user.as_bytes()].concat());
    let inner = hex(&h.finalize());
    let mut h = Md5::new();
    h.update([inner.as_bytes(), &salt[..]].concat());
    format!("md5{}", hex(&h.finalize()))
}

fn ref_inner(password: &str, user: &str) -> String {
    let mut h = Md5::new();
    h.update([password.as_bytes(), user.as_bytes()].concat());
    hex(&h.finalize())
}

/// vectors computed with Python's hashlib (machinery self-test of the reference)
pub fn selftest() -> Vec<String> {
    let mut bad = vec![];
    for (pw, u, salt, want) in [
        ("p", "a", [1u8, 2, 3, 4], "md5b7471522e4fbf230c67f4940dcda9a3b"),
        ("pé", "é", [255u8; 4], "md54bf008eb05e0bc51aa54469da9a381d2"),
    ] {
        let got = ref_md5_response(pw, u, &salt);
        if got != want {
            bad.push(format!("reference md5 response for ({:?},{:?}) = {} but hashlib says {}", pw, u, got, want));
        }
    }
    bad
}

impl AuthCase {
    /// the property's right-hand side
    pub fn expected(&self) -> bool {
        self.store.iter().any(|s| {
            s.user == self.user
                && match self.mode {
                    Mode::Cleartext => s.kind == Kind::Argon2 && s.password == self.response,
                    Mode::Md5 => s.kind == Kind::Md5 && self.response == ref_md5_response(&s.password, &self.user, &self.salt),
                }
        })
    }
    fn stored_kind_of_presented(&self) -> &'static str {
        self.store.iter().find(|s| s.user == self.user).map(|s| s.kind.name()).unwrap_or("absent")
    }
    fn argon2_work(&self) -> bool {
        self.mode == Mode::Cleartext && self.stored_kind_of_presented() == "argon2"
    }
    pub fn features(&self) -> Vec<(String, String)> {
        let primary = &self.store[0];
        vec![
            ("mode".into(), if self.mode == Mode::Md5 { "md5".into() } else { "cleartext".into() }),
            ("stored".into(), self.stored_kind_of_presented().into()),
            ("user".into(), self.user_rel.clone()),
            ("response".into(), self.resp_class.clone()),
            ("password".into(), pw_label(&primary.password)),
        ]
    }
}

fn pw_label(p: &str) -> String {
    if p.is_empty() {
        "empty".into()
    } else if p.len() >= 72 {
        "72b".into()
    } else {
        p.to_string()
    }
}

pub fn build_store(spec: &[Stored]) -> Result<PasswordStore, String> {
    let mut st = PasswordStore::new();
    for s in spec {
        match s.kind {
            Kind::Argon2 => st.add_user(s.user.clone(), &s.password).map_err(|e| format!("add_user failed: {}", e))?,
            Kind::Md5 => st.add_user_hashed(s.user.clone(), format!("{{MD5}}{}", s.password)),
            Kind::Plain => st.add_user_hashed(s.user.clone(), s.password.clone()),
            Kind::Malformed => st.add_user_hashed(s.user.clone(), format!("$argon2id${}", s.password)),
        }
    }
    Ok(st)
}

#[derive(Debug, Clone, PartialEq)]
pub enum Obs {
    Accept,
    Reject,
    Panic(String),
}

pub fn run_real(st: &PasswordStore, c: &AuthCase) -> Obs {
    let r = catch_unwind(AssertUnwindSafe(|| match c.mode {
        Mode::Cleartext => st.verify_cleartext(&c.user, &c.response),
        Mode::Md5 => st.verify_md5(&c.user, &c.response, &c.salt),
    }));
    match r {
        Ok(true) => Obs::Accept,
        Ok(false) => Obs::Reject,
        Err(p) => Obs::Panic(vcore::exec::panic_msg(p)),
    }
}

pub fn judge(c: &AuthCase, o: &Obs) -> Option<String> {
    let want = c.expected();
    let call = match c.mode {
        Mode::Cleartext => format!("verify_cleartext(user={:?}, password={:?})", c.user, vcore::util::trunc(&c.response, 90)),
        Mode::Md5 => format!("verify_md5(user={:?}, response={:?}, salt={})", c.user, vcore::util::trunc(&c.response, 90), hex(&c.salt)),
    };
    let store = c.store.iter().map(|s| format!("{}:{}:{:?}", s.user, s.kind.name(), vcore::util::trunc(&s.password, 12))).collect::<Vec<_>>().join(", ");
    match (o, want) {
        (Obs::Panic(m), _) => Some(format!("{} on store [{}] panicked: {}", call, store, vcore::util::trunc(m, 160))),
        (Obs::Accept, false) => Some(format!("{} on store [{}] was ACCEPTED; the property demands rejection", call, store)),
        (Obs::Reject, true) => Some(format!("{} on store [{}] was REJECTED; these are exactly the right credentials", call, store)),
        _ => None,
    }
}

/// all single-character edits: (class label, edited string); edits equal to the original are dropped
fn edits(s: &str, positions: Option<&[usize]>) -> Vec<(String, String)> {
    let cs: Vec<char> = s.chars().collect();
    let mut out = vec![];
    for i in 0..cs.len() {
        if let Some(ps) = positions {
            if !ps.contains(&i) {
                continue;
            }
        }
        let build = |f: &dyn Fn(&mut Vec<char>)| -> String {
            let mut v = cs.clone();
            f(&mut v);
            v.into_iter().collect()
        };
        out.push(("edit_delete".to_string(), build(&|v| {
            v.remove(i);
        })));
        out.push(("edit_duplicate".to_string(), build(&|v| {
            let c = v[i];
            v.insert(i, c);
        })));
        out.push(("edit_caseflip".to_string(), build(&|v| {
            let c = v[i];
            let f: Vec<char> = if c.is_uppercase() { c.to_lowercase().collect() } else { c.to_uppercase().collect() };
            if f.len() == 1 {
                v[i] = f[0];
            }
        })));
        out.push(("edit_substitute".to_string(), build(&|v| {
            let c = v[i];
            v[i] = match c {
                '0'..='8' => (c as u8 + 1) as char,
                '9' => 'a',
                'a'..='e' => (c as u8 + 1) as char,
                'f' => '0',
                'x' => 'y',
                _ => 'x',
            };
        })));
    }
    out.retain(|(_, e)| e != s);
    out
}

pub struct C29 {
    pub cases: Vec<AuthCase>,
}

const USERS: [&str; 4] = ["a", "A", "é", "ab"];
const UNKNOWN: &str = "zz";

fn passwords() -> Vec<String> {
    vec!["".into(), "p".into(), "P".into(), "pé".into(), "md5".into(), "0123456789abcdefghijklmnopqrstuvwxyzABCDEFGHIJKLMNOPQRSTUVWXYZ0123456789".into()]
}

fn caseflip(u: &str) -> String {
    u.chars().map(|c| if c.is_uppercase() { c.to_lowercase().next().unwrap() } else { c.to_uppercase().next().unwrap() }).collect()
}

impl C29 {
    pub fn new(tier: &str) -> C29 {
        let thorough = tier == "thorough";
        let pws = passwords();
        assert_eq!(pws[5].len(), 72);
        let salts: [[u8; 4]; 3] = [[0; 4], [1, 2, 3, 4], [0xFF; 4]];
        let mut cases = vec![];
        // (user index, password index) combinations. quick: each password once, users cycling (≈ 190 Argon2 operations),
        // for the Argon2-bound part; the MD5 part always uses the full product.
        let full: Vec<(usize, usize)> = (0..USERS.len()).flat_map(|u| (0..pws.len()).map(move |p| (u, p))).collect();
        let diag: Vec<(usize, usize)> = (0..pws.len()).map(|p| (p % USERS.len(), p)).collect();
        let presented_users = |u: &str, d: &str| -> Vec<(String, String)> {
            let mut v = vec![(u.to_string(), "same".to_string()), (d.to_string(), "decoy".to_string()), (UNKNOWN.to_string(), "unknown".to_string())];
            let f = caseflip(u);
            if f != u && f != d {
                v.push((f, "caseflip_absent".to_string()));
            }
            v.push((format!("{} ", u), "trailing_space_absent".to_string()));
            v
        };

        // ---------------- cleartext against Argon2 secrets (slow part)
        for &(ui, pi) in if thorough { &full } else { &diag } {
            let (u, pw) = (USERS[ui], pws[pi].as_str());
            let (d, dpw) = (USERS[(ui + 1) % USERS.len()], pws[(pi + 1) % pws.len()].as_str());
            let store = vec![
                Stored { user: u.into(), kind: Kind::Argon2, password: pw.into() },
                Stored { user: d.into(), kind: Kind::Argon2, password: dpw.into() },
            ];
            let mut responses: Vec<(String, String)> = vec![("correct".into(), pw.to_string())];
            let pos: Option<Vec<usize>> = if pw.len() > 8 && !thorough { Some(vec![0, 35, 71]) } else { None };
            responses.extend(edits(pw, pos.as_deref()));
            responses.push(("append_char".into(), format!("{}x", pw)));
            responses.push(("prepend_char".into(), format!("x{}", pw)));
            responses.push(("append_nul".into(), format!("{}\0", pw)));
            for (j, other) in pws.iter().enumerate() {
                if j != pi {
                    responses.push((if other == dpw { "decoys_password".into() } else { "other_password".into() }, other.clone()));
                }
            }
            responses.push(("md5_prefixed".into(), format!("md5{}", pw)));
            let mut seen: Vec<String> = vec![];
            responses.retain(|(_, r)| {
                if seen.contains(r) {
                    false
                } else {
                    seen.push(r.clone());
                    true
                }
            });
            for (pu, rel) in presented_users(u, d) {
                for (cl, r) in &responses {
                    // absent users cost nothing; existing users cost one Argon2 verification each
                    cases.push(AuthCase { store: store.clone(), mode: Mode::Cleartext, user: pu.clone(), response: r.clone(), salt: [0; 4], user_rel: rel.clone(), resp_class: cl.clone() });
                }
            }
            // the MD5 exchange must never succeed against an Argon2 secret
            for salt in &salts {
                let r = ref_md5_response(pw, u, salt);
                for (cl, resp) in [("correct_for_cleartext_password", r.clone()), ("correct_without_md5_prefix", r[3..].to_string()), ("empty", String::new()), ("password_itself", pw.to_string())] {
                    cases.push(AuthCase { store: store.clone(), mode: Mode::Md5, user: u.into(), response: resp, salt: *salt, user_rel: "same".into(), resp_class: cl.into() });
                }
            }
        }

        // ---------------- cleartext against secrets that are not Argon2 (must all be rejected)
        for &(ui, pi) in &full {
            let (u, pw) = (USERS[ui], pws[pi].as_str());
            let (d, dpw) = (USERS[(ui + 1) % USERS.len()], pws[(pi + 1) % pws.len()].as_str());
            for kind in [Kind::Md5, Kind::Plain, Kind::Malformed] {
                let store = vec![Stored { user: u.into(), kind, password: pw.into() }, Stored { user: d.into(), kind, password: dpw.into() }];
                let stored_text = match kind {
                    Kind::Md5 => format!("{{MD5}}{}", pw),
                    Kind::Plain => pw.to_string(),
                    _ => format!("$argon2id${}", pw),
                };
                let mut rs = vec![("correct_password_wrong_format".to_string(), pw.to_string()), ("stored_value".to_string(), stored_text), ("empty".to_string(), String::new()), ("md5_inner".to_string(), ref_inner(pw, u))];
                rs.dedup_by(|a, b| a.1 == b.1);
                for (cl, r) in rs {
                    cases.push(AuthCase { store: store.clone(), mode: Mode::Cleartext, user: u.into(), response: r, salt: [0; 4], user_rel: "same".into(), resp_class: cl });
                }
                if kind != Kind::Md5 {
                    for salt in &salts {
                        let r = ref_md5_response(pw, u, salt);
                        for (cl, resp) in [("correct_for_cleartext_password", r.clone()), ("correct_without_md5_prefix", r[3..].to_string()), ("empty", String::new())] {
                            cases.push(AuthCase { store: store.clone(), mode: Mode::Md5, user: u.into(), response: resp, salt: *salt, user_rel: "same".into(), resp_class: cl.into() });
                        }
                    }
                }
            }
        }

        // ---------------- MD5 exchange against {MD5} secrets
        for &(ui, pi) in &full {
            let (u, pw) = (USERS[ui], pws[pi].as_str());
            let (d, dpw) = (USERS[(ui + 1) % USERS.len()], pws[(pi + 1) % pws.len()].as_str());
            let store = vec![Stored { user: u.into(), kind: Kind::Md5, password: pw.into() }, Stored { user: d.into(), kind: Kind::Md5, password: dpw.into() }];
            for (si, salt) in salts.iter().enumerate() {
                let r = ref_md5_response(pw, u, salt);
                let other_salt = salts[(si + 1) % salts.len()];
                let mut responses: Vec<(String, String)> = vec![("correct".into(), r.clone())];
                responses.extend(edits(&r, None));
                responses.push(("correct_without_md5_prefix".into(), r[3..].to_string()));
                responses.push(("doubled_md5_prefix".into(), format!("md5{}", r)));
                responses.push(("empty".into(), String::new()));
                responses.push(("prefix_only".into(), "md5".into()));
                responses.push(("inner_hash".into(), ref_inner(pw, u)));
                responses.push(("md5_plus_inner_hash".into(), format!("md5{}", ref_inner(pw, u))));
                responses.push(("stored_value".into(), format!("{{MD5}}{}", pw)));
                responses.push(("password_itself".into(), pw.to_string()));
                responses.push(("uppercased".into(), r.to_uppercase()));
                responses.push(("uppercase_prefix".into(), format!("MD5{}", &r[3..])));
                responses.push(("uppercase_hex".into(), format!("md5{}", r[3..].to_uppercase())));
                responses.push(("correct_for_other_salt".into(), ref_md5_response(pw, u, &other_salt)));
                responses.push(("correct_for_decoy_user".into(), ref_md5_response(dpw, d, salt)));
                responses.push(("password_and_user_swapped".into(), ref_md5_response(u, pw, salt)));
                responses.push(("trailing_space".into(), format!("{} ", r)));
                responses.push(("leading_space".into(), format!(" {}", r)));
                responses.push(("trailing_nul".into(), format!("{}\0", r)));
                if thorough {
                    // every position × every hex digit (and one non-hex letter)
                    let cs: Vec<char> = r.chars().collect();
                    for i in 0..cs.len() {
                        for c in "0123456789abcdefgABCDEF".chars() {
                            if c != cs[i] {
                                let mut v = cs.clone();
                                v[i] = c;
                                responses.push(("subst_any".into(), v.into_iter().collect()));
                            }
                        }
                    }
                }
                let mut seen: std::collections::HashSet<String> = Default::default();
                responses.retain(|(_, x)| seen.insert(x.clone()));
                for (pu, rel) in presented_users(u, d) {
                    if rel == "same" {
                        for (cl, resp) in &responses {
                            cases.push(AuthCase { store: store.clone(), mode: Mode::Md5, user: pu.clone(), response: resp.clone(), salt: *salt, user_rel: rel.clone(), resp_class: cl.clone() });
                        }
                    } else {
                        // other presented users: the primary's answer, their own answer, the unprefixed ones
                        let own_pw = store.iter().find(|s| s.user == pu).map(|s| s.password.clone());
                        let mut rs = vec![("primary_users_answer".to_string(), r.clone()), ("empty".to_string(), String::new())];
                        if let Some(op) = own_pw {
                            let own = ref_md5_response(&op, &pu, salt);
                            rs.push(("correct".to_string(), own.clone()));
                            rs.push(("correct_without_md5_prefix".to_string(), own[3..].to_string()));
                        } else {
                            // what the answer would be if the absent user had the primary's password
                            rs.push(("would_be_correct_if_user_existed".to_string(), ref_md5_response(pw, &pu, salt)));
                        }
                        for (cl, resp) in rs {
                            cases.push(AuthCase { store: store.clone(), mode: Mode::Md5, user: pu.clone(), response: resp, salt: *salt, user_rel: rel.clone(), resp_class: cl });
                        }
                    }
                }
            }
        }
        C29 { cases }
    }

    pub fn argon2_verifications(&self) -> u64 {
        self.cases.iter().filter(|c| c.argon2_work()).count() as u64
    }
}

fn case_json(c: &AuthCase) -> Value {
    json!({"kind": "auth", "case": c})
}

impl Space for C29 {
    fn total(&self) -> u64 {
        self.cases.len() as u64
    }
    fn chunk(&self) -> u64 {
        (self.total() / 32).max(24)
    }
    /// Argon2-backed stores (the expensive cases) in ranges of ≤ 40 cases of one store, then 32 equal ranges
    fn ranges(&self) -> Vec<(u64, u64)> {
        let mut out = vec![];
        let mut a = 0usize;
        let n = self.cases.len();
        let slow = |i: usize| self.cases[i].store.iter().any(|s| s.kind == Kind::Argon2);
        let mut i = 0;
        while i < n && slow(i) {
            if self.cases[i].store != self.cases[a].store || i - a >= 40 {
                out.push((a as u64, i as u64));
                a = i;
            }
            i += 1;
        }
        if i > a {
            out.push((a as u64, i as u64));
        }
        let chunk = ((n - i) / 32).max(24);
        while i < n {
            let b = (i + chunk).min(n);
            out.push((i as u64, b as u64));
            i = b;
        }
        out
    }
    fn case_deadline(&self) -> Duration {
        Duration::from_secs(30)
    }
    fn run(&self, from: u64, to: u64, p: &Progress) -> ChunkOut {
        let mut acc = ChunkOut::default();
        let mut cache: HashMap<Vec<Stored>, PasswordStore> = HashMap::new();
        for idx in from..to {
            let c = &self.cases[idx as usize];
            if !cache.contains_key(&c.store) {
                // store construction (Argon2 hashing) is set-up, not the case: keep the guard quiet
                match catch_unwind(AssertUnwindSafe(|| build_store(&c.store))) {
                    Ok(Ok(st)) => {
                        acc.count("stores_built", 1);
                        acc.count("argon2_hashes_created", c.store.iter().filter(|s| s.kind == Kind::Argon2).count() as u64);
                        cache.insert(c.store.clone(), st);
                    }
                    Ok(Err(e)) => {
                        acc.machinery.push(format!("cannot build store {:?}: {}", c.store, e));
                        acc.evaluated += 1;
                        continue;
                    }
                    Err(pn) => {
                        acc.machinery.push(format!("building store {:?} panicked: {}", c.store, vcore::exec::panic_msg(pn)));
                        acc.evaluated += 1;
                        continue;
                    }
                }
            }
            let st = &cache[&c.store];
            p.begin(idx);
            let o = run_real(st, c);
            acc.evaluated += 1;
            let want = c.expected();
            let mode = if c.mode == Mode::Md5 { "md5" } else { "cleartext" };
            acc.count(&format!("{}.expected_{}", mode, if want { "accept" } else { "reject" }), 1);
            acc.count(
                &format!(
                    "{}.observed_{}",
                    mode,
                    match &o {
                        Obs::Accept => "accept",
                        Obs::Reject => "reject",
                        Obs::Panic(_) => "panic",
                    }
                ),
                1,
            );
            if c.argon2_work() {
                acc.count("argon2_verifications", 1);
            }
            acc.distinct.insert(format!(
                "{}|stored={}|user={}|resp={}|{}",
                mode,
                c.stored_kind_of_presented(),
                c.user_rel,
                c.resp_class,
                match &o {
                    Obs::Accept => "accept",
                    Obs::Reject => "reject",
                    Obs::Panic(_) => "panic",
                }
            ));
            if acc.samples.len() < 2 && (want || idx % 7 == 0) {
                acc.samples.push(json!({"mode": mode, "store": c.store.iter().map(|s| format!("{}:{}:{}", s.user, s.kind.name(), vcore::util::trunc(&s.password, 10))).collect::<Vec<_>>(),
                    "user": c.user, "response": vcore::util::trunc(&c.response, 40), "salt": hex(&c.salt), "expected_accept": want, "observed": format!("{:?}", o)}));
            }
            if let Some(what) = judge(c, &o) {
                // R3: re-execute twice from scratch (fresh store, fresh Argon2 salts)
                let mut same = true;
                for _ in 0..2 {
                    match build_store(&c.store) {
                        Ok(st2) => {
                            if run_real(&st2, c) != o {
                                same = false;
                            }
                        }
                        Err(_) => same = false,
                    }
                }
                if !same {
                    acc.machinery.push(format!("case {} is not deterministic: {}", idx, what));
                    continue;
                }
                acc.viol(idx, c.features(), what, case_json(c));
            }
        }
        acc
    }
    fn describe(&self, idx: u64) -> (Vec<(String, String)>, Value) {
        let c = &self.cases[idx as usize];
        (c.features(), case_json(c))
    }
}

pub fn replay(case: &Value) -> i32 {
    let c: AuthCase = match serde_json::from_value(case["case"].clone()) {
        Ok(c) => c,
        Err(e) => {
            eprintln!("bad replay file: case: {}", e);
            return 2;
        }
    };
    println!("store   : {:?}", c.store);
    println!("call    : {:?} user={:?} response={:?} salt={}", c.mode, c.user, vcore::util::trunc(&c.response, 120), hex(&c.salt));
    println!("features: {:?}", c.features());
    println!("expected: {}", if c.expected() { "accept" } else { "reject" });
    let st = match build_store(&c.store) {
        Ok(s) => s,
        Err(e) => {
            eprintln!("cannot build store: {}", e);
            return 2;
        }
    };
    let o = run_real(&st, &c);
    println!("observed: {:?}", o);
    match judge(&c, &o) {
        Some(w) => println!("verdict : VIOLATES C29 — {}", w),
        None => println!("verdict : holds"),
    }
    0
}
