#!/bin/bash
# tools/mk_mutant_task.sh <ID> <n>  -> creates /tmp/mw/m-<ID>-<n> (git worktree of /repo HEAD) and prints the prompt for a fresh sub-agent
set -eu
id=$1; n=$2; wt=/tmp/mw/m-$id-$n
git -C /repo worktree prune
[ -d $wt ] || git -C /repo worktree add --detach $wt HEAD >/dev/null 2>&1
python3 - "$id" "$wt" <<'PY'
import json,sys
pid,wt=sys.argv[1],sys.argv[2]
for l in open('/verif/properties.jsonl'):
    p=json.loads(l)
    if p['id']==pid:
        print(f"Read /tmp/mw/MUTANT_BRIEF.md and follow it. Your scratch worktree is {wt} (a git worktree of the repository; work only there).\n")
        print(f"Property {pid}: {p['title']}\n\nStatement: {p['statement']}\n\nQuantified over: {p['quantifier']['text']}\n\nWhy the existing tests cannot settle it: {p['why_tests_cant']}\n\nCode anchors: files {', '.join(p['anchors'].get('files',[]))}; symbols {', '.join(p['anchors'].get('symbols',[]))}")
PY
