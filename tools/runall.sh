#!/bin/bash
# tools/runall.sh <quick|thorough> [ids...]  — run the registered (or given) checks one after another,
# print exit code, wall time, KNOWN-FINDING/VIOLATION counts, and validate each evidence file.
tier=${1:-quick}; shift
cd /verif
ids=${@:-$(python3 -c "import json;print(' '.join(c['property_id'] for c in json.load(open('MANIFEST.json'))['checks']))")}
mkdir -p .build/runall
for id in $ids; do
  t0=$(date +%s.%N)
  ./verif check $id $tier > .build/runall/$id.$tier.log 2>&1; rc=$?
  t1=$(date +%s.%N)
  v=$(grep -c '^VIOLATION' .build/runall/$id.$tier.log); k=$(grep -c '^KNOWN-FINDING' .build/runall/$id.$tier.log)
  ev=$(python3-vt - "$id" <<'PY'
import json,sys,jsonschema
try:
    e=json.load(open('/verif/evidence/%s.json'%sys.argv[1])); jsonschema.validate(e,json.load(open('/root/.vp/EVIDENCE.schema.json'))); print('evidence-ok tier=%s level=%s exhaustive=%s'%(e.get('tier'),e.get('level'),e.get('coverage',{}).get('exhaustive')))
except Exception as x: print('EVIDENCE-INVALID', str(x)[:120])
PY
)
  printf "%s %s rc=%s wall=%.0fs violations=%s known=%s %s\n" $id $tier $rc $(echo "$t1 - $t0" | bc) $v $k "$ev"
done
