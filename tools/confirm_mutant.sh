#!/bin/bash
# Run the repository's pinned suite on a mutated copy of /repo (never on /repo itself).
#   tools/confirm_mutant.sh <patch.diff>|--none [outdir]
# Uses one fixed scratch worktree /tmp/mw/base (own cargo target dir, kept warm) under flock.
# Prints "SUITE-PASS" (every BASELINE stable_pass test passed) or "SUITE-FAIL" + the tests not passed.
set -u
mkdir -p /tmp/mw
# pool of build areas (each keeps its own warm target dir); wait for a free one
W=
while [ -z "$W" ]; do
  for k in "" 2; do
    exec 9>"/tmp/mw/lock$k"
    if flock -n 9; then W=/tmp/mw/base$k; break; fi
    exec 9>&-
  done
  [ -z "$W" ] && sleep 10
done
head=$(git -C /repo rev-parse HEAD)
if [ ! -d $W ]; then git -C /repo worktree prune; git -C /repo worktree add --detach $W "$head" >/dev/null 2>&1 || exit 97; fi
git -C $W checkout -q -- . ; git -C $W clean -qfd -e target
[ "$(git -C $W rev-parse HEAD)" = "$head" ] || git -C $W checkout -q --detach "$head" || exit 97
patch=${1:?patch or --none}; out=${2:-/tmp/mw/out}; mkdir -p "$out"
if [ "$patch" != "--none" ]; then git -C $W apply "$(readlink -f "$patch")" || { echo "patch does not apply"; exit 97; }; fi
cd $W
export RUSTC_WRAPPER= CARGO_NET_OFFLINE=true CARGO_PROFILE_DEV_DEBUG=0 CARGO_PROFILE_TEST_DEBUG=0 CARGO_INCREMENTAL=0
cargo test --workspace --no-fail-fast --offline >"$out/cargo-test.log" 2>&1
python3 /w/lib/parse_tests.py --kind cargo --log "$out/cargo-test.log" --out "$out/run.json" >/dev/null 2>&1
python3 - "$out/run.json" <<'PY'
import sys, json
stable=set(json.load(open('/root/.vp/BASELINE.json'))['stable_pass'])
run=json.load(open(sys.argv[1]))
passed=set(run['passed']); failed=set(run['failed'])
missing=sorted(t for t in stable if t not in passed)
realfail=[t for t in missing if t in failed]
print(f"stable_pass={len(stable)} passed_of_stable={len(stable)-len(missing)} failed={len(realfail)} not_run={len(missing)-len(realfail)}")
for t in realfail[:60]: print("FAILED", t)
for t in [t for t in missing if t not in failed][:60]: print("NOT-RUN", t)
print("SUITE-PASS" if not realfail else "SUITE-FAIL")
PY
rc=$?
git -C $W checkout -q -- . ; git -C $W clean -qfd -e target
exit $rc
