#!/usr/bin/env python3
"""tools/register.py C11 C12 ...  — register checks in MANIFEST.json from tools/registry.json
(only after quick AND thorough were run quiet by the coordinator)."""
import json, sys
M='/verif/MANIFEST.json'
m=json.load(open(M)); reg=json.load(open('/verif/tools/registry.json'))
for pid in sys.argv[1:]:
    r=reg['checks'][pid]
    m['checks']=[c for c in m['checks'] if c['property_id']!=pid]
    m['checks'].append({
        "property_id": pid,
        "quick_cmd": f"./verif check {pid} quick",
        "thorough_cmd": f"./verif check {pid} thorough",
        "evidence_file": f"evidence/{pid}.json",
        "replay_cmd_template": "./verif replay {path}",
        "engine": r['engine'],
        "level_claimed": {"category": r['category'], "text": r['text'], "design_ref": f"DESIGN.md §5 {pid}"},
        "level_note": r['note'],
        "technique": r['technique'],
    })
    m['not_applicable']=[n for n in m.get('not_applicable',[]) if n['property_id']!=pid]
    e=reg['engines'][r['engine']]
    eng=[x for x in m['engines'] if x['name']==r['engine']]
    if eng:
        if pid not in eng[0]['serves_properties']: eng[0]['serves_properties'].append(pid)
    else:
        m['engines'].append({"name": r['engine'], "path": e['path'], "serves_properties": [pid], "kind_free_text": e['kind_free_text']})
m['checks'].sort(key=lambda c:c['property_id'])
json.dump(m,open(M,'w'),indent=2,ensure_ascii=False); open(M,'a').write('\n')
print('registered', sys.argv[1:], '; claimed now:', [c['property_id'] for c in m['checks']])
