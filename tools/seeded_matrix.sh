#!/bin/bash
# tools/seeded_matrix.sh [names...] — run every seeded mutant (or the named ones) through the mutation lab against its
# property's quick tier on /repo HEAD; writes seeded/<name>/lab.txt ("<head> exit=<rc> violations=<n> wall=<s>")
cd /verif
names=${@:-$(ls seeded | grep '^C[0-9][0-9]-')}
run_one() {
  n=$1; d=/verif/seeded/$n; id=${n%%-*}
  [ -f $d/patch.diff ] || return
  head=$(git -C /repo rev-parse --short=8 HEAD)
  grep -q "^$head " $d/lab.txt 2>/dev/null && return
  if ! git -C /repo apply --check $d/patch.diff 2>/dev/null; then echo "$head does-not-apply" > $d/lab.txt; return; fi
  t0=$(date +%s)
  out=$(tools/mutlab.sh run -p $d/patch.diff -- ./verif check $id quick 2>&1); rc=$?
  t1=$(date +%s)
  v=$(echo "$out" | grep -c '^VIOLATION')
  echo "$head exit=$rc violations=$v wall=$((t1-t0))s" > $d/lab.txt
  echo "$n: $(cat $d/lab.txt)"
}
export -f run_one
printf '%s\n' $names | xargs -P 3 -I{} bash -c 'run_one {}'
