#!/bin/bash
# Mutation lab: run /verif's checks against a *mutated copy* of /repo without touching /repo or /verif.
#
#   tools/mutlab.sh run [-p <patch.diff>]... -- <command...>     e.g.  -- ./verif check C10 quick
#   tools/mutlab.sh destroy                                      remove every lab (worktrees + build output)
#
# A lab is /tmp/mutlab/lab<k>/{repo,verif}: `repo` is a detached git worktree of /repo's HEAD, `verif`
# a copy of /verif's working tree with its own .build. The command runs in a private mount namespace
# in which the lab's repo is bind-mounted over /repo and the lab's verif over /verif, so every
# absolute path in the harness (path dependencies, #[path] includes, evidence/replay directories)
# resolves to the lab. The patch is applied before and reverted after the command; cargo sees the
# changed mtimes and rebuilds. A pool of labs (MUTLAB_POOL, default 3) is shared under flock.
# Nothing here is a check: exit code = the command's exit code; 97 = lab machinery problem.
set -u
POOL=${MUTLAB_POOL:-4}
BASE=/tmp/mutlab
mkdir -p $BASE

destroy() {
  for d in $BASE/lab*; do
    [ -d "$d/repo" ] && git -C /repo worktree remove --force "$d/repo" 2>/dev/null
    rm -rf "$d"
  done
  git -C /repo worktree prune
}

case "${1:-}" in
  destroy) destroy; exit 0 ;;
  run) shift ;;
  *) sed -n 2,16p "$0"; exit 97 ;;
esac

patches=()
while [ $# -gt 0 ]; do
  case "$1" in
    -p) patches+=("$(readlink -f "$2")"); shift 2 ;;
    --) shift; break ;;
    *) echo "mutlab: unexpected argument $1" >&2; exit 97 ;;
  esac
done
[ $# -gt 0 ] || { echo "mutlab: no command" >&2; exit 97; }

# pick a free lab (wait if all are busy)
lab=
while [ -z "$lab" ]; do
  for k in $(seq 1 $POOL); do
    exec 9>"$BASE/lab$k.lock"
    if flock -n 9; then lab=$BASE/lab$k; break; fi
    exec 9>&-
  done
  [ -z "$lab" ] && sleep 5
done

head=$(git -C /repo rev-parse HEAD)
if [ ! -d "$lab/repo" ]; then
  mkdir -p "$lab"
  git -C /repo worktree prune
  git -C /repo worktree add --detach "$lab/repo" "$head" >/dev/null 2>&1 || { echo "mutlab: cannot create worktree" >&2; exit 97; }
  mkdir -p "$lab/verif/.build"
  # warm start: third-party artefacts are valid in the lab because absolute paths are identical inside the namespace
  [ -d /verif/.build/t ] && cp -a /verif/.build/t "$lab/verif/.build/t"
  [ -d /verif/.build/py ] && cp -a /verif/.build/py "$lab/verif/.build/py"
fi
# bring the lab to /repo's HEAD, clean
git -C "$lab/repo" checkout -q -- . 2>/dev/null
git -C "$lab/repo" clean -qfd 2>/dev/null
if [ "$(git -C "$lab/repo" rev-parse HEAD)" != "$head" ]; then
  git -C "$lab/repo" checkout -q --detach "$head" || { echo "mutlab: cannot move lab to $head" >&2; exit 97; }
fi
# current /verif sources (not build output, not evidence history)
rsync -a --delete --exclude .build --exclude .git --exclude evidence --exclude replays --exclude 'target' --exclude '__pycache__' /verif/ "$lab/verif/"
rs=$?; [ $rs -eq 0 ] || [ $rs -eq 24 ] || { echo "mutlab: rsync failed ($rs)" >&2; exit 97; }
mkdir -p "$lab/verif/evidence" "$lab/verif/replays"

for p in "${patches[@]}"; do
  git -C "$lab/repo" apply "$p" || { echo "mutlab: patch $p does not apply to $head" >&2; git -C "$lab/repo" checkout -q -- .; exit 97; }
done
[ ${#patches[@]} -gt 0 ] && echo "mutlab: $lab: applied ${#patches[@]} patch(es): $(git -C "$lab/repo" diff --stat | tail -1)" >&2

LAB=$lab unshare -m sh -c 'mount --bind "$LAB/repo" /repo && mount --bind "$LAB/verif" /verif && cd /verif && exec "$@"' sh "$@"
rc=$?

# revert (new mtimes => cargo rebuilds the reverted files next time)
git -C "$lab/repo" checkout -q -- . 2>/dev/null
git -C "$lab/repo" clean -qfd 2>/dev/null
exit $rc
