#!/bin/bash
# Run the repository's pinned baseline (hooks OFF: no feature flags) exactly as BASELINE.json's
# fallback command does (`cargo test --workspace --no-fail-fast --offline`; nextest cannot list the
# sqllogictest binary here) and compare with BASELINE.json's stable_pass set using the pinned parser.
# Exit 0 iff every stable test passed.
set -u
cd /repo
export RUSTC_WRAPPER= CARGO_NET_OFFLINE=true
OUT=${1:-/verif/.build/baseline}
mkdir -p "$OUT"
cargo test --workspace --no-fail-fast --offline >"$OUT/cargo-test.log" 2>&1
python3 /w/lib/parse_tests.py --kind cargo --log "$OUT/cargo-test.log" --out "$OUT/run.json" >/dev/null 2>&1
python3 - "$OUT/run.json" <<'PY'
import sys, json
stable=set(json.load(open('/root/.vp/BASELINE.json'))['stable_pass'])
run=json.load(open(sys.argv[1]))
passed=set(run['passed']); failed=set(run['failed'])
missing=sorted(t for t in stable if t not in passed)
print(f"stable_pass={len(stable)} passed_of_stable={len(stable)-len(missing)} not_passed={len(missing)} (run: passed={len(passed)} failed={len(failed)})")
for t in missing[:80]: print("NOT-PASSED", t, "(failed)" if t in failed else "(not run?)")
sys.exit(0 if not missing else 1)
PY
